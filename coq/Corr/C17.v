(* Comparison functions for the C17 correspondence run (tie C).  Evaluated by vm_compute on
   case files written by tools/harness/C17.py. *)
From Coq Require Import ZArith List Bool.
From VC2 Require Import Base.CorrLib Model.ValueSet Model.ConstraintTable.
Import ListNotations.
Open Scope Z_scope.

(* Python sets are observed as duplicate-free lists: equal as sets = same length + both inclusions *)
Definition zset_eqb (a b : list Z) : bool :=
  (Nat.eqb (length a) (length b)) && forallb (fun x => zmem x b) a && forallb (fun x => zmem x a) b.
Definition rset_eqb (a b : list (Z * Z)) : bool :=
  (Nat.eqb (length a) (length b)) && forallb (fun x => rmem x b) a && forallb (fun x => rmem x a) b.

Definition vset_eqb (a b : vset) : bool :=
  match a, b with
  | Any, Any => true
  | VS s, VS t => zset_eqb (vs_values s) (vs_values t) && rset_eqb (vs_ranges s) (vs_ranges t)
  | _, _ => false
  end.

Fixpoint zinsert (x : Z) (l : list Z) : list Z :=
  match l with [] => [x] | y :: r => if x <=? y then x :: l else y :: zinsert x r end.
Definition zsort (l : list Z) : list Z := fold_right zinsert [] l.

Definition blist_eqb := list_eqb Bool.eqb.

(* observation of one ValueSet object: state, `q in obj` for the queries, sorted iter_values()
   (None when it is an AnyValue: iter_values raises) *)
Definition obs_vset := (vset * list bool * option (list Z))%type.

Definition vset_agrees (a : vset) (qs : list Z) (cmp_state : bool) (o : obs_vset) : bool :=
  let '(st, cont, itv) := o in
  (if cmp_state then vset_eqb a st else true) && blist_eqb (map (contains a) qs) cont
  && match a, itv with
     | Any, None => true
     | VS s, Some l => zlist_eqb (zsort (st_iter_values s)) l
     | _, _ => false
     end.

(* (expression, queries, compare the internal sets?, observation).  The internal sets are
   compared (up to permutation) when every range has lo <= hi; with an inverted range the
   final sets depend on the iteration order of Python's set (containment does not), so only
   containment and iter_values are compared there; single steps from the actual state
   (check_step) are compared in full in every case. *)
Definition check_expr (c : vexpr * list Z * bool * obs_vset) : bool :=
  let '(e, qs, cmp, o) := c in vset_agrees (build e) qs cmp o.

(* one add_range / add_value / + executed from the object's ACTUAL state, listed in the
   order Python iterates its sets: (state, op, resulting state) *)
Inductive step_op := OpAddV (v : Z) | OpAddR (lo hi : Z) | OpUnion (b : vset).
Definition check_step (c : vset * step_op * vset) : bool :=
  let '(a, op, r) := c in
  vset_eqb (match op with
            | OpAddV v => add_value_vs a v
            | OpAddR lo hi => add_range_vs a lo hi
            | OpUnion b => union a b
            end) r.

(* (a, b, a.is_disjoint(b), b.is_disjoint(a)); a and b given as expression AND as the actual state *)
Definition check_disjoint (c : vexpr * vexpr * vset * vset * bool * bool * bool) : bool :=
  let '(ea, eb, sa, sb, cmp, ab, ba) := c in
  Bool.eqb (is_disjoint sa sb) ab && Bool.eqb (is_disjoint sb sa) ba
  && (if cmp then Bool.eqb (is_disjoint (build ea) (build eb)) ab && Bool.eqb (is_disjoint (build eb) (build ea)) ba else true).

(* ---- tables ---------------------------------------------------------------------- *)
Fixpoint filter_idx_from (i : Z) (T : table) (vals : assignment) : list Z :=
  match T with
  | [] => []
  | e :: r => if matches e vals || is_nil e then i :: filter_idx_from (i + 1) r vals
              else filter_idx_from (i + 1) r vals
  end.

(* (table, values, key, any_value, indices kept by filter_constraint_table,
    is_allowed_combination, allowed_values_for default, allowed_values_for with any_value) *)
Definition check_table (c : table * assignment * key * vset * list Z * bool * vset * vset) : bool :=
  let '(T, vals, k, av, idx, allowed, avf, avf2) := c in
  zlist_eqb (filter_idx_from 0 T vals) idx
  && Nat.eqb (length (filter_constraint_table T vals)) (length idx)
  && Bool.eqb (is_allowed_combination T vals) allowed
  && vset_eqb (allowed_values_for T k vals Any) avf
  && vset_eqb (allowed_values_for T k vals av) avf2.

Definition kv_eqb (a b : key * Z) : bool := (fst a =? fst b) && (snd a =? snd b).

(* (table, (key, value) sequence, None = ValueNotAllowedInLevel | Some final dict,
    number of calls that returned normally) *)
Fixpoint accepted_calls (T : table) (cv : assignment) (kvs : list (key * Z)) : Z :=
  match kvs with
  | [] => 0
  | kv :: r => match level_step T cv kv with Some cv' => 1 + accepted_calls T cv' r | None => 0 end
  end.
Definition check_level (c : table * list (key * Z) * option assignment * Z) : bool :=
  let '(T, kvs, o, n) := c in
  opt_eqb (list_eqb kv_eqb) (level_check T kvs) o && (accepted_calls T [] kvs =? n).

(* ---- csv -------------------------------------------------------------------------- *)
Definition kvs_eqb (a b : key * vset) : bool := (fst a =? fst b) && vset_eqb (snd a) (snd b).
Definition table_eqb : table -> table -> bool := list_eqb (list_eqb kvs_eqb).
Definition check_csv (c : list row * table) : bool :=
  let '(rows, T) := c in table_eqb (read_rows rows) T.
