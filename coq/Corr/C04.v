(* Correspondence checks for C04: the implementation's observation is part of each case. *)
From Coq Require Import ZArith List Bool.
From VC2 Require Import Base.PyZ Base.CorrLib Gen.StateRec Model.EncoderSlices.
From VC2 Require Export Corr.C14.
Import ListNotations.
Open Scope Z_scope.

Definition band_eqb : band -> band -> bool := list_eqb zlist_eqb.
Definition ccoeffs_eqb (a b : ccoeffs) : bool := zlist_eqb (fst a) (fst b) && zlist_eqb (snd a) (snd b).
Definition scoeffs_eqb (a b : scoeffs) : bool :=
  ccoeffs_eqb (sc_Y a) (sc_Y b) && ccoeffs_eqb (sc_C1 a) (sc_C1 b) && ccoeffs_eqb (sc_C2 a) (sc_C2 b).

(* [luma_width; luma_height; color_diff_width; color_diff_height; dwt_depth; dwt_depth_ho; slices_x; slices_y] *)
Definition mkst (a : list Z) : pystate :=
  let g i := nth i a 0 in
  set_st_slices_y (set_st_slices_x (set_st_dwt_depth_ho (set_st_dwt_depth
    (set_st_color_diff_height (set_st_color_diff_width (set_st_luma_height (set_st_luma_width empty_pystate
      (g 0%nat)) (g 1%nat)) (g 2%nat)) (g 3%nat)) (g 4%nat)) (g 5%nat)) (g 6%nat)) (g 7%nat).

(* (band, what apply_dc_prediction made of it, what dc_prediction made of it) *)
Definition check_dc (c : band * band * band) : bool :=
  let '(b, enc, dec) := c in
  band_eqb (apply_dc_prediction b) enc && band_eqb (dc_prediction b) dec.

(* transform_and_slice_picture: coefficient arrays (after DC prediction) -> slices *)
Definition check_gather (c : list Z * (list subband * list subband * list subband) * list (list scoeffs)) : bool :=
  let '(a, (yb, c1b, c2b), rows) := c in
  list_eqb (list_eqb scoeffs_eqb) (gather_slices (mkst a) yb c1b c2b) rows.

(* decoder: slices' coefficient lists (all coded with qindex 0) -> arrays at picture_decode;
   ld = true: the second list holds c_transform (interleaved), the profile uses DC prediction *)
Definition check_scatter (c : list Z * bool * list (Z * Z)
                              * (list (list (list Z)) * list (list (list Z)) * list (list (list Z)))
                              * (list band * list band * list band)) : bool :=
  let '(a, ld, shape, (ys, c1s, c2s), (yo, c1o, c2o)) := c in
  let st := mkst a in
  let c1s' := if ld then map (map (fun l => fst (deinterleave l))) c1s else c1s in
  let c2s' := if ld then map (map (fun l => snd (deinterleave l))) c1s else c2s in
  list_eqb band_eqb (decode_component st Str_Y shape ld ys) yo
  && list_eqb band_eqb (decode_component st Str_C1 shape ld c1s') c1o
  && list_eqb band_eqb (decode_component st Str_C2 shape ld c2s') c2o.
