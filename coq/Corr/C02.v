(* Corr/C02.v -- comparison functions for the correspondence run of Model/Headers.v (tools/harness/C02_headers.py).
   The abstract level predicate of the model is instantiated with C17's model of
   allowed_values_for / ValueSet.__contains__ on the dumped live LEVEL_CONSTRAINTS table. *)
From Coq Require Import ZArith List Bool.
From VC2 Require Import Base.CorrLib Model.ValueSet Model.ConstraintTable.
From VC2 Require Import Model.Headers.
Import ListNotations.
Open Scope Z_scope.

(* value in allowed_values_for(LEVEL_CONSTRAINTS, key, _level_constrained_values) *)
Definition lvl_of (LT : ConstraintTable.table) : hist -> Z -> Z -> bool :=
  fun h k v => ValueSet.contains (ConstraintTable.allowed_values_for LT k h ValueSet.Any) v.

Scheme Equality for cerr.

(* what the harness observed on the implementation *)
Inductive outcome := OOk | ORej (e : cerr) | OEof | OCrash.

(* (outcome, state ints, video parameters, _level_constrained_values, quant_matrix, bits consumed) *)
Definition obs := (outcome * list Z * list Z * list (Z * Z) * list ((Z * Z) * Z) * Z)%type.

Definition pair_eqb (a b : Z * Z) : bool := (fst a =? fst b) && (snd a =? snd b).
Definition qm_eqb (a b : (Z * Z) * Z) : bool := pair_eqb (fst a) (fst b) && (snd a =? snd b).

(* kind: 0 sequence_header, 1 picture_parse (to the start of transform_data), 2 fragment_parse (to the
   slices), 3 parse_info *)
Definition run_case (T : tables) (LT : ConstraintTable.table) (kind : Z)
    (st : list (Z * Z)) (lcv : option hist) (hdr : option (list Z)) (bytes : list Z) (pos : Z)
    (gacc lacc : list Z) : hres (unit * St) :=
  let bits := skipn (Z.to_nat pos) (bits_of_bytes bytes) in
  let s0 := init_S st lcv (option_map bits_of_bytes hdr) bits pos in
  let fuel := fuel_for bits in
  let lv := lvl_of LT in
  if kind =? 0 then sequence_header T lv fuel s0
  else if kind =? 1 then picture_parse_header T lv fuel s0
  else if kind =? 2 then fragment_parse_header T lv fuel s0
  else parse_info T (fun pc => zmem pc gacc) (fun pc => zmem pc lacc) s0.

Definition agree (kind : Z) (r : hres (unit * St)) (o : obs) : bool :=
  let '(out, st, vp, lcv, qm, pos) := o in
  match r, out with
  | HOk (_, s), OOk =>
      zlist_eqb (obs_state s) st &&
      (if kind =? 0 then zlist_eqb (obs_vp s) vp else true) &&
      list_eqb pair_eqb (obs_lcv s) lcv &&
      list_eqb qm_eqb (match s_qm s with Some q => q | None => [] end) qm &&
      (r_pos (s_rd s) =? pos)
  | HReject e, ORej e' => cerr_beq e e'
  | HEof, OEof => true
  | HCrash _, OCrash => true
  | _, _ => false
  end.

Definition case := (Z * list (Z * Z) * option hist * option (list Z) * list Z * Z * list Z * list Z * obs)%type.
Definition check (T : tables) (LT : ConstraintTable.table) (c : case) : bool :=
  let '(kind, st, lcv, hdr, bytes, pos, gacc, lacc, o) := c in
  agree kind (run_case T LT kind st lcv hdr bytes pos gacc lacc) o.

(* for debugging a mismatch: the model's own observation *)
Definition show (r : hres (unit * St)) :=
  match r with
  | HOk (_, s) => (0, None, obs_state s, obs_vp s, obs_lcv s, match s_qm s with Some q => q | None => [] end, r_pos (s_rd s))
  | HReject e => (1, Some e, [], [], [], [], 0)
  | HEof => (2, None, [], [], [], [], 0)
  | HCrash _ => (3, None, [], [], [], [], 0)
  | HOutOfFuel => (4, None, [], [], [], [], 0)
  end.
