(* Correspondence helpers for C19: the harness writes the arguments of a real
   make_matching_sequence call (patterns as token lists, parsed by the C18 model of
   parse_regex) and what the call did; `chk_seq` replays it on the model. *)
From Coq Require Import ZArith List Bool.
From VC2 Require Import Base.CorrLib Model.Regex Model.NFA Model.Matcher Model.MatchSeq.
Import ListNotations.
Open Scope Z_scope.

Fixpoint parse_all (ps : list (list token)) : option (list re) :=
  match ps with
  | [] => Some []
  | t :: r =>
    match parse_regex t, parse_all r with
    | inr a, Some l => Some (a :: l)
    | _, _ => None
    end
  end.

(* observed: Some out = returned list, None = ImpossibleSequenceError *)
Definition res_eqb (r : result) (o : option (list Z)) : bool :=
  match r, o with
  | Seq out, Some out' => zlist_eqb out out'
  | Impossible, None => true
  | _, _ => false
  end.

(* (init, patterns, depth_limit, symbol_priority, fuel, observed) *)
Definition chk_seq (c : list Z * list (list token) * Z * list Z * Z * option (list Z)) : bool :=
  match c with
  | (init, ps, limit, prio, fuel, o) =>
    match parse_all ps with
    | Some pats => res_eqb (make_seq (Z.to_nat fuel) init pats limit prio) o
    | None => false
    end
  end.

(* the same with the candidate set enumerated in reverse (order independence, sampled) *)
Definition chk_seq_rev (c : list Z * list (list token) * Z * list Z * Z * option (list Z)) : bool :=
  match c with
  | (init, ps, limit, prio, fuel, o) =>
    match parse_all ps with
    | Some pats => res_eqb (make_seq_gen (@rev label) (Z.to_nat fuel) init pats limit prio) o
    | None => false
    end
  end.

(* the hypothesis of the theorems, evaluated on the case's patterns *)
Definition chk_eos_ok (ps : list (list token)) : bool :=
  match parse_all ps with
  | Some pats => forallb eos_ok pats
  | None => false
  end.
