(* Correspondence definitions for C09. *)
From Coq Require Import ZArith List Bool.
From VC2 Require Import Base.PyZ Base.CorrLib Gen.StateRec Model.Picture.
Import ListNotations.
Open Scope Z_scope.

Definition nthz (l : list Z) (i : nat) : Z := nth i l 0.
Definition comp_of (c : Z) : pystr := if c =? 0 then Str_Y else if c =? 1 then Str_C1 else Str_C2.
Definition zll_eqb := list_eqb zlist_eqb.

(* g = [frame_width; frame_height; color_diff_format_index; picture_coding_mode; luma_excursion; color_diff_excursion] *)
Definition dims_of (g : list Z) : pdims :=
  mk_dims (nthz g 0) (nthz g 1) (nthz g 2) (nthz g 3) (nthz g 4) (nthz g 5).
Definition dims_list (d : pdims) : list Z :=
  [luma_width d; luma_height d; color_diff_width d; color_diff_height d; luma_depth d; color_diff_depth d].

(* (g, component, idwt output, [state dims and depths computed by the real code], real result of
   idwt_pad_removal; clip_component; offset_component) *)
Definition finish_case := (list Z * Z * list (list Z) * list Z * list (list Z))%type.
Definition chk_finish_case (c : finish_case) : bool :=
  let '(g, comp, input, dl, out) := c in
  let d := dims_of g in
  zlist_eqb (dims_list d) dl && depth_dom (comp_depth d (comp_of comp)) &&
  zll_eqb (finish_component d (comp_of comp) input) out.

(* data units: [0; pn] picture, [1; pn; slices] first fragment, [2; pn; count] fragment data, [3] other *)
Definition unit_of (l : list Z) : dunit :=
  match l with
  | [0; pn] => UPicture pn
  | [1; pn; s] => UFragFirst pn s
  | [2; pn; n] => UFragData pn n
  | _ => UOther
  end.
(* (units, accepted?, picture numbers delivered) *)
Definition units_case := (list (list Z) * bool * list Z)%type.
Definition chk_units_case (c : units_case) : bool :=
  let '(us, accepted, pics) := c in
  match run (map unit_of us), accepted with
  | Some p, true => zlist_eqb p pics
  | None, false => true
  | _, _ => false
  end.
