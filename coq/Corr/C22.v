(* Correspondence checks for C22 (evaluated by vm_compute on cases written by tools/harness/C22.py). *)
From Coq Require Import ZArith List Bool.
From VC2 Require Import Base.PyZ Base.CorrLib Gen.VC2Math Model.FileFormat Model.PicGen.
Import ListNotations.
Open Scope Z_scope.

Definition zll_eqb := list_eqb zlist_eqb.
Definition zlll_eqb := list_eqb zll_eqb.

(* float_to_int_clipped: (excursion, integers produced by float_to_int, integers returned) *)
Definition check_clip (c : Z * list Z * list Z) : bool :=
  let '(exc, pre, post) := c in zlist_eqb (map (clip_sample exc) pre) post.

(* progressive_to_pictures on labelled rows: (pcm, interlaced, tff, frames, pictures observed) *)
Definition check_p2p (c : Z * bool * bool * list (list Z) * list (list Z)) : bool :=
  let '(pcm, interlaced, tff, frames, pics) := c in
  zll_eqb (progressive_to_pictures pcm interlaced tff frames) pics.

Definition gen_of (n : Z) : generator :=
  if n =? 0 then MovingSprite else if n =? 1 then StaticSprite else if n =? 2 then LinearRamps
  else if n =? 3 then MidGray else WhiteNoise.

Definition dims_tuple (d : dims) : list Z := [d_width d; d_height d; d_depth d; d_bps d].

(* one generator run:
   (generator, format, pcm, interlaced, num_frames,
    picture numbers observed, [w; h] of Y and of C1/C2 observed (same for all pictures),
    dimensions_and_depths as reported by the implementation) *)
Definition check_gen (c : Z * format * Z * bool * Z * list Z * list (list Z) * list (list Z)) : bool :=
  let '(g, f, pcm, interlaced, nf, picnums, shapes, rdims) := c in
  let n := pictures_yielded (gen_of g) pcm interlaced nf in
  (Z.of_nat (length picnums) =? n) &&
  zlist_eqb (map fst (xyz_to_native (repeat (@nil unit) (length picnums)))) picnums &&
  zll_eqb (map dims_tuple (compute_dimensions_and_depths f pcm)) rdims &&
  regular f pcm interlaced &&
  match generated_dims f pcm interlaced with
  | Some ((w, h), (cw, ch)) => zll_eqb [[w; h]; [cw; ch]] shapes
  | None => false
  end.
