(* Correspondence definitions for C27: the model instantiated at string keys / integer values and
   compared with what the real fixeddict classes did (tools/harness/C27.py writes the cases). *)
From Coq Require Import List Bool String ZArith.
From VC2 Require Import Model.FixedDict Base.CorrLib.
Import ListNotations.
Open Scope Z_scope.

Definition skey := string.
Definition sitems := items string Z.

(* what the harness observed for one operation *)
Inductive observed :=
| ORet (r : option Z)
| ORetItem (k : string) (v : Z)
| OFixedDictKeyError (k : string)
| OKeyError
| OOther.                        (* any other exception: never produced by the model *)

Definition outcome_agrees (m : outcome string Z) (o : observed) : bool :=
  match m, o with
  | Returned a, ORet b => opt_eqb Z.eqb a b
  | ReturnedItem k v, ORetItem k' v' => String.eqb k k' && Z.eqb v v'
  | RaisedFixedDictKeyError k, OFixedDictKeyError k' => String.eqb k k'
  | RaisedKeyError, OKeyError => true
  | _, _ => false
  end.

Definition item_eqb (a b : string * Z) : bool := String.eqb (fst a) (fst b) && Z.eqb (snd a) (snd b).
Definition items_eqb : sitems -> sitems -> bool := list_eqb item_eqb.

Definition list_agree {A B} (agree : A -> B -> bool) : list A -> list B -> bool :=
  fix go a b := match a, b with
                | [], [] => true
                | x :: a', y :: b' => agree x y && go a' b'
                | _, _ => false
                end.

Definition step_agrees (m : outcome string Z * sitems) (o : observed * sitems) : bool :=
  outcome_agrees (fst m) (fst o) && items_eqb (snd m) (snd o).

(* one history: class, constructor arguments, what the constructor did (None = accepted, with the
   items the new object holds), the operations and the observation after each of them *)
Definition history_case :=
  (ior_variant * fdclass string * option (source string Z) * sitems * (option string * sitems)
   * list (op string Z) * list (observed * sitems))%type.

Definition history_agrees (c : history_case) : bool :=
  let '(var, cls, e, f, iobs, ops, obs) := c in
  match init String.eqb cls e f, iobs with
  | InitErr k, (Some k', _) => String.eqb k k' && match ops with [] => true | _ => false end
  | InitOk s0, (None, l0) =>
      items_eqb (fitems s0) l0 && list_agree step_agrees (trace String.eqb var s0 ops) obs
  | _, _ => false
  end.

(* the property's invariant evaluated on the model's own trace (a cross-check of the theorem on the
   very inputs of the run; the theorem itself is Props/C27.v) *)
Definition trace_keys_declared (c : history_case) : bool :=
  let '(var, cls, e, f, iobs, ops, obs) := c in
  match init String.eqb cls e f with
  | InitErr _ => true
  | InitOk s0 => forallb (fun st => forallb (fun kv => declared String.eqb cls (fst kv)) (snd st))
                         (trace String.eqb var s0 ops)
  end.
