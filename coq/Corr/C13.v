(* C13 correspondence (tie C) helpers: the observation the harness takes from the Python
   implementation, recomputed from Gen/SliceSizes.v.  Evaluated by vm_compute on generated
   case files (tools/harness/C13.py); nothing here is used by the proofs. *)
From Coq Require Import ZArith List Bool.
From VC2 Require Import Base.PyZ Base.CorrLib Gen.StateRec Gen.SliceSizes.
Import ListNotations.
Open Scope Z_scope.

(* built with the setters so that the field order of the generated record does not matter *)
Definition mkst (lw lh cw ch d dh nx ny num den : Z) : pystate :=
  set_st_slice_bytes_denominator (set_st_slice_bytes_numerator
  (set_st_slices_y (set_st_slices_x (set_st_dwt_depth_ho (set_st_dwt_depth
  (set_st_color_diff_height (set_st_color_diff_width (set_st_luma_height
  (set_st_luma_width empty_pystate lw) lh) cw) ch) d) dh) nx) ny) num) den.

Definition zr (n : Z) : list Z := map Z.of_nat (seq 0 (Z.to_nat n)).
Definition comps : list pystr := [Str_Y; Str_C1; Str_C2].
Definition comp_of (k : Z) : pystr := if k =? 0 then Str_Y else if k =? 1 then Str_C1 else Str_C2.

(* full observation of a state: for every component, every level 0..dh+d+1: width, height, then
   (left, right) of every sx, then (top, bottom) of every sy; then slice_bytes in raster order;
   then the flag.  The Python side (obs_full) produces the same order. *)
Definition obs_band (st : pystate) (c : pystr) (l : Z) : list Z :=
  [subband_width st l c; subband_height st l c]
  ++ flat_map (fun sx => [slice_left st sx c l; slice_right st sx c l]) (zr (st_slices_x st))
  ++ flat_map (fun sy => [slice_top st sy c l; slice_bottom st sy c l]) (zr (st_slices_y st)).

Definition obs_full (st : pystate) : list Z :=
  flat_map (fun c => flat_map (obs_band st c) (zr (st_dwt_depth_ho st + st_dwt_depth st + 2))) comps
  ++ flat_map (fun sy => map (fun sx => slice_bytes st sx sy) (zr (st_slices_x st))) (zr (st_slices_y st))
  ++ [b2z (slices_have_same_dimensions st)].

Definition dom_band (st : pystate) (c : pystr) (l : Z) : bool :=
  subband_width_dom st l c && subband_height_dom st l c
  && forallb (fun sx => slice_left_dom st sx c l && slice_right_dom st sx c l) (zr (st_slices_x st))
  && forallb (fun sy => slice_top_dom st sy c l && slice_bottom_dom st sy c l) (zr (st_slices_y st)).

Definition dom_full (st : pystate) : bool :=
  forallb (fun c => forallb (dom_band st c) (zr (st_dwt_depth_ho st + st_dwt_depth st + 2))) comps
  && forallb (fun sy => forallb (fun sx => slice_bytes_dom st sx sy) (zr (st_slices_x st))) (zr (st_slices_y st))
  && slices_have_same_dimensions_dom st.

(* order-sensitive polynomial checksum of an observation, mod 2^61 (same formula in the harness);
   the multiplier is larger than every value of the box, so distinct lists differ before wrap-around *)
Definition hash_mask : Z := 2305843009213693951.   (* 2^61 - 1 *)
Definition hash_obs (l : list Z) : Z :=
  fold_left (fun acc v => Z.land (acc * 1000003 + v + 1) hash_mask) l 7.

(* the box states are enumerated on both sides from their indices (literals are expensive to parse):
   luma = (w, h); colour difference 4:4:4 / 4:2:2 / 4:2:0 and the slice_bytes fraction derived from
   the indices -- the same formulas as box_state in tools/harness/C13.py *)
Definition box_state (w h d dh nx ny : Z) : pystate :=
  let mode := (w + h + d) mod 3 in
  let cw := if mode =? 0 then w else (w + 1) / 2 in
  let ch := if mode =? 2 then (h + 1) / 2 else h in
  let num := (w * 31 + h * 17 + nx * 5 + dh) mod 97 in
  let den := (h * 7 + w + ny) mod 13 + 1 in
  mkst w h cw ch d dh nx ny num den.

Definition group_states (w h d dh nmax : Z) : list pystate :=
  flat_map (fun nx => map (fun ny => box_state w h d dh (nx + 1) (ny + 1)) (zr nmax)) (zr nmax).

(* group cases: (w, h, d, dh, nmax, checksum of the per-state checksums of all nmax^2 slice counts) *)
Definition chk_group (x : Z * Z * Z * Z * Z * Z) : bool :=
  let '(w, h, d, dh, nmax, H) := x in
  let sts := group_states w h d dh nmax in
  (hash_obs (map (fun st => hash_obs (obs_full st)) sts) =? H) && forallb dom_full sts.

Definition st_of (t : Z * Z * Z * Z * Z * Z * Z * Z * Z * Z) : pystate :=
  let '(lw, lh, cw, ch, d, dh, nx, ny, num, den) := t in mkst lw lh cw ch d dh nx ny num den.

(* box cases: (state, checksum of the implementation's full observation) -- none of the calls raised *)
Definition chk_hash (x : Z * Z * Z * Z * Z * Z * Z * Z * Z * Z * Z) : bool :=
  let '(t, h) := x in
  let st := st_of t in (hash_obs (obs_full st) =? h) && dom_full st.

(* full cases: (state, the implementation's full observation) *)
Definition chk_full (x : Z * Z * Z * Z * Z * Z * Z * Z * Z * Z * list Z) : bool :=
  let '(t, o) := x in
  let st := st_of t in zlist_eqb (obs_full st) o && dom_full st.

(* point cases: one call of each of the eight functions; None = the Python call raised *)
Definition obs_point (st : pystate) (l k sx sy : Z) : list (option Z) :=
  let c := comp_of k in
  let o (dom : bool) (v : Z) := if dom then Some v else None in
  [ o (subband_width_dom st l c) (subband_width st l c);
    o (subband_height_dom st l c) (subband_height st l c);
    o (slice_bytes_dom st sx sy) (slice_bytes st sx sy);
    o (slice_left_dom st sx c l) (slice_left st sx c l);
    o (slice_right_dom st sx c l) (slice_right st sx c l);
    o (slice_top_dom st sy c l) (slice_top st sy c l);
    o (slice_bottom_dom st sy c l) (slice_bottom st sy c l);
    o (slices_have_same_dimensions_dom st) (b2z (slices_have_same_dimensions st)) ].

Definition chk_point (x : Z * Z * Z * Z * Z * Z * Z * Z * Z * Z * (Z * Z * Z * Z) * list (option Z)) : bool :=
  let '(t, (l, k, sx, sy), o) := x in
  list_eqb (opt_eqb Z.eqb) (obs_point (st_of t) l k sx sy) o.
