(* Correspondence checks for C23 (evaluated by vm_compute on cases written by tools/harness/C23.py). *)
From Coq Require Import ZArith List Bool.
From VC2 Require Import Base.PyZ Base.CorrLib Model.FileFormat Model.Compare.
Import ListNotations.
Open Scope Z_scope.

Definition dims_tuple (d : dims) : list Z := [d_width d; d_height d; d_depth d; d_bps d].

Definition zll_eqb := list_eqb zlist_eqb.

(* one written file:
   (format, pcm, dims reported by the real compute_dimensions_and_depths, picture written,
    bytes of the .raw file written by the real write_picture,
    the same file with random padding bits, picture the real read_picture returns for it) *)
Definition check_file (c : format * Z * list (list Z) * list (list Z) * list Z * list Z * list (list Z)) : bool :=
  let '(f, pcm, rdims, pic, bytes, junk, junk_pic) := c in
  let ds := compute_dimensions_and_depths f pcm in
  zll_eqb (map dims_tuple ds) rdims &&
  picture_ok ds pic &&
  zlist_eqb (write_picture ds pic) bytes &&
  match read_picture ds bytes with
  | Some (p, []) => zll_eqb p pic
  | _ => false
  end &&
  match read_picture ds junk with
  | Some (p, []) => zll_eqb p junk_pic
  | _ => false
  end.

(* one run of the real main() on two file names:
   (metadata a, metadata b (None = no .json), raw bytes a, raw bytes b (None = no .raw),
    exit status, per-component counts parsed from the output ([] unless status 0/4)) *)
Definition check_compare (c : option metadata * option metadata * option (list Z) * option (list Z) * Z * list Z) : bool :=
  let '(ma, mb, fa, fb, rc, counts) := c in
  match compare_pictures ma mb fa fb with
  | Exit code => (code =? rc) && zlist_eqb counts []
  | Compared r cs => (r =? rc) && zlist_eqb cs counts && (main_files ma mb fa fb =? rc)
  end.

(* directory mode: (return codes of the pairs in the order compared, exit status, identical, different) *)
Definition check_dirs (c : list Z * Z * Z * Z) : bool :=
  let '(rcs, fin, same, diff) := c in
  match main_dirs rcs with
  | (f, s, d) => (f =? fin) && (s =? same) && (d =? diff)
  end.

(* single samples: (depth, value, bytes) *)
Definition check_sample (c : Z * Z * list Z) : bool :=
  let '(depth, v, bytes) := c in
  zlist_eqb (pack depth v) bytes && (unpack depth bytes =? v) && (Z.of_nat (length bytes) =? bytes_per_sample depth).
