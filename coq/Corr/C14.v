(* Correspondence checks for C14: the implementation's observation is part of each case. *)
From Coq Require Import ZArith List Bool.
From VC2 Require Import Base.PyZ Base.CorrLib Model.EncoderSlices.
Import ListNotations.
Open Scope Z_scope.

(* (qindex, [lengths], [coefficient lists]) *)
Definition slice_obs : Type := (Z * list Z * list (list Z))%type.
Definition slice_obs_eqb (a b : slice_obs) : bool :=
  (fst (fst a) =? fst (fst b)) && zlist_eqb (snd (fst a)) (snd (fst b)) && list_eqb zlist_eqb (snd a) (snd b).

Definition hq_obs_of (s : hq_slice) : slice_obs :=
  (hq_qindex s, [hq_y_length s; hq_c1_length s; hq_c2_length s], [hq_y s; hq_c1 s; hq_c2 s]).
Definition ld_obs_of (s : ld_slice) : slice_obs :=
  (ld_qindex s, [ld_y_length s], [ld_y s; ld_c s]).

(* None = Insufficient*PictureBytesError *)
Definition check_hq_lossy (c : Z * list (list scoeffs) * Z * Z * option (Z * list slice_obs)) : bool :=
  let '(pb, rows, minq, mins, obs) := c in
  match make_transform_data_hq_lossy pb rows minq mins, obs with
  | Ok (s, sl), Some (s', sl') => (s =? s') && list_eqb slice_obs_eqb (map hq_obs_of sl) sl'
  | Insufficient, None => true
  | _, _ => false
  end.

Definition check_ld_lossy (c : Z * list (list scoeffs) * Z * option (list slice_obs)) : bool :=
  let '(pb, rows, minq, obs) := c in
  match make_transform_data_ld_lossy pb rows minq, obs with
  | Ok sl, Some sl' => list_eqb slice_obs_eqb (map ld_obs_of sl) sl'
  | Insufficient, None => true
  | _, _ => false
  end.

Definition check_hq_lossless (c : list (list scoeffs) * Z * (Z * list slice_obs)) : bool :=
  let '(rows, mins, obs) := c in
  let '(s, sl) := make_transform_data_hq_lossless rows mins in
  (s =? fst obs) && list_eqb slice_obs_eqb (map hq_obs_of sl) (snd obs).

(* quantize_to_fit / calculate_coeffs_bits / calculate_hq_length_field directly:
   (target, sets, align, minq, (qindex, quantised sets), [bits of each quantised set], [hq length field with scaler 3]) *)
Definition check_qtf (c : Z * list ccoeffs * Z * Z * (Z * list (list Z)) * list Z * list Z) : bool :=
  let '(t, sets, a, m, obs, bits, lens) := c in
  match quantize_to_fit t sets a m with
  | Some (q, qs) => (q =? fst obs) && list_eqb zlist_eqb qs (snd obs)
                    && zlist_eqb (map calculate_coeffs_bits qs) bits
                    && zlist_eqb (map (fun x => calculate_hq_length_field x 3) qs) lens
  | None => false
  end.
