(* Correspondence definitions for C16: decide_extended_transform_flag /
   make_extended_transform_parameters under a synthetic single-column level table. *)
From Coq Require Import ZArith List Bool.
From VC2 Require Import Model.SeqHeader Model.LevelChoices Corr.C15.
Import ListNotations.
Open Scope Z_scope.

Definition cvs_is_empty (s : cvs) : bool :=
  match s with VSet [] [] => true | _ => false end.

(* allowed_values_for on a single concrete column: the column's set if it admits the
   constrained values, the empty set otherwise *)
Definition perm_of (cc : ccolumn) (cv : list kv) (k : ckey) : (Z -> bool) * bool :=
  if col_admits (col_of cc) cv
  then (fun v => col_of cc k v, cvs_is_empty (nth (key_id k) cc (VSet [] [])))
  else (fun _ => false, true).

Definition obool_eqb (a b : option bool) : bool :=
  match a, b with Some x, Some y => Bool.eqb x y | None, None => true | _, _ => false end.
Definition oz_eqb (a b : option Z) : bool :=
  match a, b with Some x, Some y => x =? y | None, None => true | _, _ => false end.

Definition case16 := (ccolumn * list (Z * Z) * (Z * Z * Z * Z) * list (Z * bool * option bool)
                      * option (bool * option Z * bool * option Z))%type.

Definition check16 (c : case16) : bool :=
  let '(cc, cv0, (wi, wi_ho, d, dh), flags, e) := c in
  let cv := map kv_of cv0 in
  forallb (fun '(kid, required, res) =>
             let '(p, emp) := perm_of cc cv (key_of_id (Z.to_nat kid)) in
             obool_eqb (decide_extended_transform_flag p emp required) res) flags
  && (let '(pi, ei) := perm_of cc cv K_asym_transform_index_flag in
      let '(pa, ea) := perm_of cc cv K_asym_transform_flag in
      let '(pw, _) := perm_of cc cv K_wavelet_index_ho in
      let '(pd, _) := perm_of cc cv K_dwt_depth_ho in
      match make_extended_transform_parameters pi ei pa ea pw pd wi wi_ho dh, e with
      | Some m, Some (fi, w, fa, dd) =>
          Bool.eqb (etp_index_flag m) fi && oz_eqb (etp_wavelet_index_ho m) w
          && Bool.eqb (etp_flag m) fa && oz_eqb (etp_dwt_depth_ho m) dd
      | None, None => true
      | _, _ => false
      end).

(* autofill_major_version: (fragments, first sequence header, wavelet_index, coded etp, observed version) *)
Definition case16v := (bool * header * Z * (bool * option Z * bool * option Z) * Z)%type.
Definition check16v (c : case16v) : bool :=
  let '(fragments, h, wi, (fi, w, fa, d), version) := c in
  autofill_major_version fragments h wi (mkEtp fi w fa d) =? version.

(* the sequence header enumeration under a synthetic table *)
Definition check16h (T : tables) (c : list ccolumn * case15) : bool := check15 T (fst c) (snd c).
