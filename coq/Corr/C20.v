(* Correspondence runners for C20 (tie C): op-sequence interpreters over the models
   of Model/BitIO.v producing plain Z observations that tools/harness/C20.py
   compares with what the real classes did.  Runs CONTINUE after an exception
   (with the mutated state), like a Python caller catching it. *)
From Coq Require Import ZArith List Bool.
From VC2 Require Import Base.PyZ Base.CorrLib Model.BitIO.
Import ListNotations.
Open Scope Z_scope.

Definition ecode (e : option err) : Z :=
  match e with
  | None => 0
  | Some EOutOfRange => 1 | Some EValue => 2 | Some EEof => 3 | Some EUnexpectedEOS => 4
  | Some EExc => 5 | Some EAssert => 6 | Some EFuel => 7
  end.
Definition rcode {A} (r : res A) : Z := match r with Ok _ => 0 | Err e => ecode (Some e) end.
Definition oz (o : option Z) : list Z := match o with None => [0; 0] | Some r => [1; r] end.

(* ------------------------------------------------------------------ writer *)
Inductive wop := WBit (b : bool) | WNBits (n v : Z) | WUintLit (n v : Z) | WBitArr (n : Z) (l : list bool)
               | WBytes (n : Z) (l : list Z) | WUint (v : Z) | WSint (v : Z) | WFlush | WSeek (by_ bi : Z)
               | WBegin (len : Z) | WEnd.

Definition w_obs (s : wst) (code ret : Z) : list Z := [code; ret; w_bitpos s] ++ oz (w_rem s).
Definition w_step (o : wop) (s : wst) : wst * list Z :=
  let plain (m : wst * option err) := (fst m, w_obs (fst m) (ecode (snd m)) 0) in
  match o with
  | WBit b => plain (w_write_bit b s)
  | WNBits n v => plain (w_write_nbits n v s)
  | WUintLit n v => plain (w_write_uint_lit n v s)
  | WBitArr n l => plain (w_write_bitarray n l s)
  | WBytes n l => plain (w_write_bytes n l s)
  | WUint v => plain (w_write_uint v s)
  | WSint v => plain (w_write_sint v s)
  | WFlush => plain (w_flush s, None)
  | WSeek by_ bi => plain (w_seek by_ bi s)
  | WBegin len => plain (w_block_begin len s)
  | WEnd => match w_block_end s with
            | (s1, Ok n) => (s1, w_obs s1 0 n)
            | (s1, Err e) => (s1, w_obs s1 (ecode (Some e)) 0)
            end
  end.
Fixpoint w_run (ops : list wop) (s : wst) : list (list Z) * list Z :=
  match ops with
  | [] => ([], w_file (w_flush s))
  | o :: t => let '(s1, ob) := w_step o s in let '(l, f) := w_run t s1 in (ob :: l, f)
  end.
(* case: (initial file, ops, (observations, final file after flush)) *)
Definition w_check (c : list Z * list wop * (list (list Z) * list Z)) : bool :=
  let '(f0, ops, (eo, ef)) := c in
  let '(o, f) := w_run ops (w_init f0 0) in
  list_eqb zlist_eqb o eo && zlist_eqb f ef.

(* ---------------------------------------------------------- BitstreamReader *)
Inductive ropx := RBit | RNBits (n : Z) | RUintLit (n : Z) | RBitArr (n : Z) | RBytes (n : Z) | RUint | RSint
                | RSeek (by_ bi : Z) | RBegin (len : Z) | REnd.
Definition r_obs (s : rst) (code : Z) (vals : list Z) : list Z := [code; r_bitpos s] ++ oz (r_rem s) ++ vals.
Definition r_step (o : ropx) (s : rst) : rst * list Z :=
  let one (m : rst * res Z) := (fst m, r_obs (fst m) (rcode (snd m)) (match snd m with Ok v => [v] | _ => [] end)) in
  let many (m : rst * res (list Z)) := (fst m, r_obs (fst m) (rcode (snd m)) (match snd m with Ok v => v | _ => [] end)) in
  let plain (m : rst * option err) := (fst m, r_obs (fst m) (ecode (snd m)) []) in
  match o with
  | RBit => one (r_read_bit s)
  | RNBits n => one (r_read_nbits n s)
  | RUintLit n => one (r_read_uint_lit n s)
  | RBitArr n => many (r_read_bitarray n s)
  | RBytes n => many (r_read_bytes n s)
  | RUint => one (r_read_uint s)
  | RSint => one (r_read_sint s)
  | RSeek by_ bi => plain (r_seek by_ bi s)
  | RBegin len => plain (r_block_begin len s)
  | REnd => one (r_block_end s)
  end.
Fixpoint rx_run (ops : list ropx) (s : rst) : list (list Z) :=
  match ops with
  | [] => []
  | o :: t => let '(s1, ob) := r_step o s in ob :: rx_run t s1
  end.
Definition r_check (c : list Z * list ropx * list (list Z)) : bool :=
  let '(f, ops, eo) := c in list_eqb zlist_eqb (rx_run ops (r_init f 0)) eo.

(* ---------------------------------------------------------- decoder reader *)
Inductive dop := DBit | DNBits (n : Z) | DUintLit (n : Z) | DUint | DSint | DBitb | DUintb | DSintb
               | DFlush | DAlign | DSetLeft (len : Z) | DRecStart | DRecFinish.
Definition d_obs (s : dst) (code : Z) (vals : list Z) : list Z := [code; d_bitpos s; d_left s] ++ vals.
Definition d_step (o : dop) (s : dst) : dst * list Z :=
  let one (m : dst * res Z) := (fst m, d_obs (fst m) (rcode (snd m)) (match snd m with Ok v => [v] | _ => [] end)) in
  let many (m : dst * res (list Z)) := (fst m, d_obs (fst m) (rcode (snd m)) (match snd m with Ok v => v | _ => [] end)) in
  let plain (m : dst * option err) := (fst m, d_obs (fst m) (ecode (snd m)) []) in
  match o with
  | DBit => one (d_read_bit s)
  | DNBits n => one (d_read_nbits n s)
  | DUintLit n => one (d_read_uint_lit n s)
  | DUint => one (d_read_uint s)
  | DSint => one (d_read_sint s)
  | DBitb => one (d_read_bitb s)
  | DUintb => one (d_read_uintb s)
  | DSintb => one (d_read_sintb s)
  | DFlush => plain (d_flush_inputb s)
  | DAlign => plain (d_byte_align s, None)
  | DSetLeft len => plain (d_set_left s len, None)
  | DRecStart => plain (d_record_start s)
  | DRecFinish => many (d_record_finish s)
  end.
Fixpoint dx_run (ops : list dop) (s : dst) : list (list Z) :=
  match ops with
  | [] => []
  | o :: t => let '(s1, ob) := d_step o s in ob :: dx_run t s1
  end.
Definition d_check (c : list Z * list dop * list (list Z)) : bool :=
  let '(f, ops, eo) := c in list_eqb zlist_eqb (dx_run ops (d_init f 0)) eo.

(* --------------------------------------------- exhaustive families (checksummed) *)
Definition hmix (h x : Z) : Z := Z.land (h * 1000003 + x + 7) 2305843009213693951.
Definition hlist (h : Z) (l : list Z) : Z := fold_left hmix l (hmix h (Z.of_nat (length l))).
Definition hobs (h : Z) (o : list (list Z)) : Z := fold_left hlist o h.

Definition r_prims : list ropx := [RBit; RNBits 3; RNBits 9; RUintLit 1; RBitArr 5; RBytes 1; RUint; RSint].
(* blk = -100 stands for "no bounded block" *)
Definition r_family (f : list Z) (blk : Z) : Z :=
  fold_left (fun h p =>
    let ops := if blk =? -100 then [p; RUint; RBit] else [RBegin blk; p; RUint; REnd; RBit] in
    hobs h (rx_run ops (r_init f 0))) r_prims 0.
Definition d_prims_b : list dop := [DBitb; DUintb; DSintb].
Definition d_prims_u : list dop := [DBit; DNBits 3; DNBits 9; DUintLit 1; DUint; DSint; DAlign].
Definition d_family (f : list Z) (blk : Z) : Z :=
  if blk =? -100 then
    fold_left (fun h p => hobs h (dx_run [p; DUint; DAlign; DBit] (d_init f 0))) d_prims_u 0
  else
    fold_left (fun h p => hobs h (dx_run [DSetLeft blk; p; DUintb; DFlush; DBit] (d_init f 0))) d_prims_b 0.
(* case: (file, block lengths, expected checksums of both readers) *)
Definition exh_check (c : list Z * list Z * (list Z * list Z)) : bool :=
  let '(f, blks, (er, ed)) := c in
  zlist_eqb (map (r_family f) blks) er && zlist_eqb (map (d_family f) blks) ed.

(* the structured programs of Model/BitIO (readers_agree) *)
Definition obs_flat (o : obs) : list Z :=
  flat_map (fun p => [fst p; snd p]) (fst o) ++ [ecode (fst (snd o)); snd (snd o)].
Definition prog_check (c : list Z * list rop * (list Z * list Z)) : bool :=
  let '(f, p, (er, ed)) := c in
  zlist_eqb (obs_flat (r_run p (r_init f 0))) er && zlist_eqb (obs_flat (d_run p (d_init f 0))) ed.

(* exp-Golomb bit patterns and lengths: (v, bits of write_uint v as 0/1, bits of write_sint v) *)
Definition zbits (l : list bool) : list Z := map b2z l.
