(* Correspondence helpers for C18: the harness writes what the real
   `parse_regex` / `Matcher` did as literals of the types below; these functions
   replay the same inputs on the model and compare. *)
From Coq Require Import ZArith List Bool.
From VC2 Require Import Model.Regex Model.NFA Model.Matcher.
Import ListNotations.
Open Scope Z_scope.

(* --- parser ------------------------------------------------------------------ *)
Fixpoint re_eqb (a b : re) : bool :=
  match a, b with
  | Empty, Empty | Any, Any | Eos, Eos => true
  | Sym s, Sym t => Z.eqb s t
  | Cat a1 a2, Cat b1 b2 | Alt a1 a2, Alt b1 b2 => re_eqb a1 b1 && re_eqb a2 b2
  | Star a1, Star b1 => re_eqb a1 b1
  | _, _ => false
  end.

Definition perr_code (e : perr) : Z :=
  match e with
  | EMultipleModifiers => 1
  | EModifierBeforeBar => 2
  | EUnmatched => 3
  | EModifierBeforeLP => 4
  | EModifierAtStart => 5
  | EFuel => 99
  end.

(* (tokens, 0, AST the code returned) or (tokens, error code, Empty) *)
Definition chk_parse (c : list token * Z * re) : bool :=
  match c with
  | (toks, code, ast) =>
    match parse_regex toks with
    | inr r => Z.eqb code 0 && re_eqb r ast
    | inl e => Z.eqb code (perr_code e)
    end
  end.

(* --- matcher ----------------------------------------------------------------- *)
(* An observation of a Matcher object is one number:
     is_complete() + 2 * (the match_symbol call that led here returned True)
     + 4 * (bit set of valid_next_symbols(): END_OF_SEQUENCE 1, WILDCARD 2, symbol s 2^(s+1))
   Observations are listed in pre-order: for a `tree` plan (depth d >= 1, alphabet) the
   Matcher is copied and advanced with every symbol of the alphabet, recursively d
   deep; for a `chain` plan (depth 0) the symbols are fed one after the other. *)
Definition label_bit (l : label) : Z :=
  match l with LEos => 1 | LAny => 2 | LSym s => Z.shiftl 4 (s - 1) end.

Definition vn_mask (m : matcher) : Z :=
  fold_left (fun acc l => Z.lor acc (label_bit l)) (valid_next m) 0.

Definition node_code (ok : bool) (m : matcher) : Z :=
  (if is_complete m then 1 else 0) + (if ok then 2 else 0) + 4 * vn_mask m.

Fixpoint tree_codes (depth : nat) (alpha : list sym) (ok : bool) (m : matcher) : list Z :=
  node_code ok m ::
  match depth with
  | O => []
  | S d => flat_map (fun s => let (ok', m') := match_symbol m s in tree_codes d alpha ok' m') alpha
  end.

Fixpoint chain_codes (seq : list sym) (ok : bool) (m : matcher) : list Z :=
  node_code ok m ::
  match seq with
  | [] => []
  | s :: t => let (ok', m') := match_symbol m s in chain_codes t ok' m'
  end.

Definition plan_codes (m : matcher) (depth : nat) (syms : list sym) : list Z :=
  match depth with
  | O => chain_codes syms true m
  | _ => tree_codes depth syms true m
  end.

Definition zlist_eqb' : list Z -> list Z -> bool :=
  fix go a b := match a, b with
                | [], [] => true
                | x :: a', y :: b' => Z.eqb x y && go a' b'
                | _, _ => false
                end.

(* (tokens, [(depth, symbols, observations of the implementation,
                 prediction of the harness' language oracle: is_complete + 2 * accepted,
                 or [] where the oracle makes no statement)]) *)
Definition case_t : Type := (list token * list (nat * list sym * list Z * list Z))%type.

Definition low2 (c : Z) : Z := Z.land c 3.

(* which = 0: implementation = model;  1: oracle = model;  2: both *)
Definition chk_case (mode : eps_mode) (which : Z) (c : case_t) : bool :=
  match c with
  | (toks, plans) =>
    match parse_regex toks with
    | inr r =>
      let m := new_matcher mode r in
      forallb (fun p => match p with
                        | (d, syms, codes, orc) =>
                          let mine := plan_codes m d syms in
                          (Z.eqb which 1 || zlist_eqb' codes mine)
                          && (Z.eqb which 0 || match orc with [] => true | _ => zlist_eqb' orc (map low2 mine) end)
                        end) plans
    | inl _ => false
    end
  end.
