(* Correspondence helpers for C18: the harness writes what the real
   `parse_regex` / `Matcher` did as literals of the types below; these functions
   replay the same inputs on the model and compare. *)
From Coq Require Import ZArith List Bool.
From VC2 Require Import Model.Regex Model.NFA Model.Matcher.
Import ListNotations.
Open Scope Z_scope.

(* --- parser ------------------------------------------------------------------ *)
Fixpoint re_eqb (a b : re) : bool :=
  match a, b with
  | Empty, Empty | Any, Any | Eos, Eos => true
  | Sym s, Sym t => Z.eqb s t
  | Cat a1 a2, Cat b1 b2 | Alt a1 a2, Alt b1 b2 => re_eqb a1 b1 && re_eqb a2 b2
  | Star a1, Star b1 => re_eqb a1 b1
  | _, _ => false
  end.

Definition perr_code (e : perr) : Z :=
  match e with
  | EMultipleModifiers => 1
  | EModifierBeforeBar => 2
  | EUnmatched => 3
  | EModifierBeforeLP => 4
  | EModifierAtStart => 5
  | EFuel => 99
  end.

(* (tokens, 0, AST the code returned) or (tokens, error code, Empty) *)
Definition chk_parse (c : list token * Z * re) : bool :=
  match c with
  | (toks, code, ast) =>
    match parse_regex toks with
    | inr r => Z.eqb code 0 && re_eqb r ast
    | inl e => Z.eqb code (perr_code e)
    end
  end.

(* --- matcher ----------------------------------------------------------------- *)
(* valid_next_symbols() as numbers: symbol s -> s (>= 1), WILDCARD -> 0,
   END_OF_SEQUENCE -> -1 *)
Definition label_code (l : label) : Z :=
  match l with LSym s => s | LAny => 0 | LEos => -1 end.

Definition zmem (x : Z) (l : list Z) : bool := existsb (Z.eqb x) l.
Definition zset_eqb (a b : list Z) : bool := forallb (fun x => zmem x b) a && forallb (fun x => zmem x a) b.

(* what was observed on a Matcher: is_complete(), valid_next_symbols(), and for
   some symbols: the result of match_symbol on a copy and the observation
   after it *)
Inductive obs := O (complete : bool) (vn : list Z) (kids : list (sym * bool * obs)).

Definition T := true.
Definition F := false.

Fixpoint chk_obs (m : matcher) (o : obs) {struct o} : bool :=
  match o with
  | O c vn kids =>
    Bool.eqb c (is_complete m)
    && zset_eqb vn (map label_code (valid_next m))
    && (fix go (ks : list (sym * bool * obs)) : bool :=
          match ks with
          | [] => true
          | (s, ok, o') :: ks' =>
            (let (ok', m') := match_symbol m s in Bool.eqb ok ok' && chk_obs m' o') && go ks'
          end) kids
  end.

Definition chk_matcher (mode : eps_mode) (c : list token * obs) : bool :=
  match c with
  | (toks, o) =>
    match parse_regex toks with
    | inr r => chk_obs (new_matcher mode r) o
    | inl _ => false
    end
  end.
