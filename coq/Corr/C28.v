(* C28 correspondence: comparison functions evaluated by the generated case files
   (tools/harness/C28.py).  No theorems here. *)
From Coq Require Import ZArith List Bool String Ascii.
From VC2 Require Import Base.CorrLib Model.CsvFeatures.
Import ListNotations.
Open Scope Z_scope.

(* strings given as byte codes (texts with quotes, control or non-ASCII bytes) *)
Fixpoint bs (l : list Z) : string :=
  match l with
  | [] => EmptyString
  | b :: r => String (ascii_of_N (Z.to_N b)) (bs r)
  end.

(* compact cell literals; the harness uses one only when the tokenised cell equals its expansion *)
Definition E : cell := mkCell EmptyString false None None [].
Definition D (t : string) : cell := mkCell t true None None [None].      (* a casing of "default" *)
Definition W (t : string) : cell := mkCell t false None None [None].     (* one word: no int, no bool word *)
Definition K (t : string) (n : Z) : cell := mkCell t false (Some n) None [Some n].  (* one integer word *)
Definition C := mkCell.

Inductive obs :=
| OOk (cfgs : list config)
| OInvalid (k : err_kind) (field col : string)
| OInvalidUnknown.             (* InvalidCodecFeaturesError with a message the harness cannot classify *)

Definition err_kind_eqb (a b : err_kind) : bool :=
  match a, b with
  | EMissing, EMissing | EInvalid, EInvalid | EDupName, EDupName
  | ELosslessPictureBytes, ELosslessPictureBytes | EUnrecognised, EUnrecognised
  | ECsvMalformed, ECsvMalformed => true
  | _, _ => false
  end.

Definition value_eqb (a b : value) : bool :=
  match a, b with
  | VZ x, VZ y => x =? y
  | VB x, VB y => Bool.eqb x y
  | _, _ => false
  end.

Definition orient_eqb (a b : orient) : bool :=
  match a, b with
  | oL, oL | oLL, oLL | oH, oH | oHL, oHL | oLH, oLH | oHH, oHH => true
  | _, _ => false
  end.

Definition matrix_eqb : matrix -> matrix -> bool :=
  list_eqb (fun a b => (fst a =? fst b) &&
                       list_eqb (fun x y => orient_eqb (fst x) (fst y) && (snd x =? snd y)) (snd a) (snd b)).

Definition config_eqb (a b : config) : bool :=
  String.eqb (cf_name a) (cf_name b) &&
  (cf_level a =? cf_level b) && (cf_profile a =? cf_profile b) &&
  (cf_picture_coding_mode a =? cf_picture_coding_mode b) &&
  (cf_wavelet_index a =? cf_wavelet_index b) && (cf_wavelet_index_ho a =? cf_wavelet_index_ho b) &&
  (cf_dwt_depth a =? cf_dwt_depth b) && (cf_dwt_depth_ho a =? cf_dwt_depth_ho b) &&
  (cf_slices_x a =? cf_slices_x b) && (cf_slices_y a =? cf_slices_y b) &&
  (cf_fragment_slice_count a =? cf_fragment_slice_count b) &&
  Bool.eqb (cf_lossless a) (cf_lossless b) &&
  list_eqb value_eqb (cf_video_parameters a) (cf_video_parameters b) &&
  opt_eqb Z.eqb (cf_picture_bytes a) (cf_picture_bytes b) &&
  opt_eqb matrix_eqb (cf_quantization_matrix a) (cf_quantization_matrix b).

(* model result vs the implementation's observation.  The "Unrecognised row(s)" message
   lists an unordered set and no column name: only the kind is compared. *)
Definition agree (r : result (list config)) (o : obs) : bool :=
  match r, o with
  | Ok cfgs, OOk cfgs' => list_eqb config_eqb cfgs cfgs'
  | Invalid k f c, OInvalid k' f' c' =>
      err_kind_eqb k k' &&
      match k with EUnrecognised => true | _ => String.eqb c c' && String.eqb f f' end
  | _, _ => false
  end.

Definition check (T : tables) (case : option (list (list cell)) * obs) : bool :=
  agree (read_model T (fst case)) (snd case).

(* read_dict_list_csv alone: the columns as ordered (key, text) lists *)
Definition check_dict_list (case : list (list cell) * list (list (string * string))) : bool :=
  list_eqb (list_eqb (fun a b => String.eqb (fst a) (fst b) && String.eqb (snd a) (snd b)))
           (map (map (fun kv => (fst kv, c_text (snd kv)))) (read_dict_list (fst case)))
           (snd case).

Definition check_col_name (case : Z * string) : bool := String.eqb (col_name (fst case)) (snd case).

(* the hypotheses of the theorems on the live tables *)
Definition tables_ok (T : tables) : bool := defaults_completeb T && defaults_in_domainb T.
