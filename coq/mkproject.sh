#!/bin/sh
# regenerate _CoqProject from the directory listing and the Makefile from it
cd "$(dirname "$0")"
{ echo "-Q . VC2"; echo "-arg -w -arg -notation-overridden,-deprecated-hint-without-locality,-deprecated-instance-without-locality"; find Base Gen Model Proofs Props Corr -name '*.v' | LC_ALL=C sort; } > _CoqProject.new
if ! cmp -s _CoqProject.new _CoqProject; then mv _CoqProject.new _CoqProject; coq_makefile -f _CoqProject -o Makefile >/dev/null; else rm _CoqProject.new; [ -f Makefile ] || coq_makefile -f _CoqProject -o Makefile >/dev/null; fi
