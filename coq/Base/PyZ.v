(* Python integer semantics used by the generated (tie T) and hand models.

   Python's  //  and  %  are floor division and the sign-of-divisor modulo:
   exactly Coq's Z.div / Z.modulo.  x << n and x >> n (n >= 0) are Z.shiftl /
   Z.shiftr (arithmetic shift, floor).  x ** n (n >= 0) is Z.pow.
   x.bit_length() is the number of bits of |x| (0 for 0).

   The functions below are TOTAL; the generated *_dom functions record when the
   Python expression raises instead (zero divisor, negative shift/exponent). *)

From Coq Require Import ZArith List Bool Lia.
Import ListNotations.
Open Scope Z_scope.

Definition py_div (a b : Z) : Z := Z.div a b.
Definition py_mod (a b : Z) : Z := Z.modulo a b.
Definition py_shl (a n : Z) : Z := Z.shiftl a n.
Definition py_shr (a n : Z) : Z := Z.shiftr a n.
Definition py_pow (a n : Z) : Z := Z.pow a n.
Definition py_abs (a : Z) : Z := Z.abs a.
Definition py_min (a b : Z) : Z := Z.min a b.
Definition py_max (a b : Z) : Z := Z.max a b.

(* int.bit_length(): for x <> 0, floor(log2 |x|) + 1 *)
Definition bit_length (x : Z) : Z :=
  match x with
  | Z0 => 0
  | Zpos p => Z.log2 (Zpos p) + 1
  | Zneg p => Z.log2 (Zpos p) + 1
  end.

Definition py_sum (l : list Z) : Z := fold_right Z.add 0 l.
Definition py_len (l : list Z) : Z := Z.of_nat (length l).

(* Python's  True/False used as integers *)
Definition b2z (b : bool) : Z := if b then 1 else 0.
(* truthiness of an int *)
Definition z2b (z : Z) : bool := negb (Z.eqb z 0).
