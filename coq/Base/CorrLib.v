(* Helpers for the correspondence runs (tie C): evaluated with vm_compute on
   case files written by the harness. *)
From Coq Require Import ZArith List Bool.
Import ListNotations.
Open Scope Z_scope.

Fixpoint bad_from {A} (chk : A -> bool) (i : Z) (l : list A) : list Z :=
  match l with
  | [] => []
  | x :: r => if chk x then bad_from chk (i + 1) r else i :: bad_from chk (i + 1) r
  end.
(* forces the element type of a case list to be the checker's domain, so that literals such as []
   inside a case are typed even when no case pins them down *)
Definition cases_for {A} (chk : A -> bool) (l : list A) : list A := l.

Definition bad_indices {A} (chk : A -> bool) (l : list A) : list Z := bad_from chk 0 l.

Definition list_eqb {A} (eqb : A -> A -> bool) : list A -> list A -> bool :=
  fix go a b := match a, b with
                | [], [] => true
                | x :: a', y :: b' => eqb x y && go a' b'
                | _, _ => false
                end.
Definition zlist_eqb := list_eqb Z.eqb.
Definition opt_eqb {A} (eqb : A -> A -> bool) (a b : option A) : bool :=
  match a, b with
  | Some x, Some y => eqb x y
  | None, None => true
  | _, _ => false
  end.
