(* Stream level of bitstream/vc2.py: parse_stream / parse_sequence (the loop over data units and the
   loop over sequences) as functions over the interpreter of Model/SerDes.v.

   Two things the program language of SerDes.v cannot express are added here, outside the interpreter:
   - a program piece may depend on io.tell()[0] (parse_info stores it as "_offset"): [dprog] pieces are
     built from the current byte offset;
   - the while loop of parse_stream, whose condition is
         not io.is_end_of_stream()  or  not is_target_complete("sequences")
     (a reader is at the end when no bit is left -- streams are whole bytes --, a writer always).
   Loops run on explicit fuel; running out of fuel is the error EOther.
   Data-unit bodies are a parameter [body : parse_code -> next_parse_offset -> prog unit].
   Target / type numbers (shared with tools/harness/C06.py): Stream = type 40 {"sequences" 200};
   Sequence = type 41 {"data_units" 201, "_state" 202 (modelled as the constant 0)}; DataUnit = type 42
   {"parse_info" 10, "sequence_header" 203, "auxiliary_data" 204, "padding" 11, "picture_parse" 205,
   "fragment_parse" 206}; ParseInfo = type 1 as in SerDesVC2.unit_prog.   NO proofs here. *)
From Coq Require Import ZArith List Bool.
From VC2 Require Import Model.SerDes Model.SerDesVC2.
Import ListNotations.
Open Scope Z_scope.

(* description pieces that may look at the current byte offset, with data-dependent continuation *)
Inductive dprog : Type :=
| DDone
| DFail
| DRun (A : Type) (mk : Z -> prog A) (k : A -> dprog).

Fixpoint drun (stp : forall o, st -> res (result o * st)) (d : dprog) (s : st) : res st :=
  match d with
  | DDone => Ok s
  | DFail => Err EOther
  | DRun A mk k => do (a, s1) <- run stp (mk (pos (sio s) / 8)) s; drun stp (k a) s1
  end.

(* parse code tests (pseudocode/parse_code_functions.py; = Gen/ParseCodes.v, see Proofs) *)
Definition code_seq_header (c : Z) : bool := c =? 0.
Definition code_end_of_sequence (c : Z) : bool := c =? 16.
Definition code_auxiliary_data (c : Z) : bool := Z.land c 248 =? 32.
Definition code_padding_data (c : Z) : bool := c =? 48.
Definition code_picture (c : Z) : bool := Z.land c 140 =? 136.
Definition code_fragment (c : Z) : bool := Z.land c 12 =? 12.

(* serdes.subcontext_enter("data_units"); serdes.set_context_type(DataUnit);
   with serdes.subcontext("parse_info"):   [@context_type(ParseInfo)]  serdes.byte_align("padding") *)
Definition unit_open : prog unit :=
  pseqs [pop (OSubEnter 201); pop (OSetType 42); pop (OSubEnter 10); pop (OSetType 1); pop (OByteAlign 0)].

(* ... serdes.computed_value("_offset", serdes.io.tell()[0]); the four fixed-width fields; leave parse_info.
   Returns (parse_code, next_parse_offset). *)
Definition unit_info (offset : Z) : prog (Z * Z) :=
  Op (OComputed 1 (VI offset)) (fun _ =>
  Op (OUintLit 2 4) (fun _ => Op (OUintLit 3 1) (fun code =>
  Op (OUintLit 4 4) (fun npo => Op (OUintLit 5 4) (fun _ =>
  Op OSubLeave (fun _ => Ret (val_int code, val_int npo))))))).

(* the data units of one sequence, up to and including the end-of-sequence unit *)
Fixpoint units (body : Z -> Z -> prog unit) (fuel : nat) (k : dprog) : dprog :=
  match fuel with
  | O => DFail
  | S f =>
      DRun unit (fun _ => unit_open) (fun _ =>
      DRun (Z * Z) unit_info (fun cn =>
      if code_end_of_sequence (fst cn)
      then DRun unit (fun _ => pop OSubLeave) (fun _ => k)
      else DRun unit (fun _ => pseq (body (fst cn) (snd cn)) (pop OSubLeave)) (fun _ => units body f k)))
  end.

(* with serdes.subcontext("sequences"): parse_sequence(serdes, state) *)
Definition sequence_iter (body : Z -> Z -> prog unit) (ufuel : nat) : dprog :=
  DRun unit (fun _ => pop (OSubEnter 200)) (fun _ =>
  DRun unit (fun _ => pseqs [pop (OSetType 41); pop (OComputed 202 (VI 0)); pop (ODeclList 201)])
    (fun _ => units body ufuel (DRun unit (fun _ => pop OSubLeave) (fun _ => DDone)))).

(* the while condition of parse_stream, for a deserialiser *)
Definition des_more (s : st) : res bool :=
  match bits (sio s) with
  | _ :: _ => Ok true
  | [] => do b <- is_target_complete 200 s; Ok (negb b)
  end.
(* ... and for a serialiser (BitstreamWriter.is_end_of_stream() is always True) *)
Definition ser_more (s : st) : res bool := do b <- is_target_complete 200 s; Ok (negb b).

Fixpoint stream_loop (stp : forall o, st -> res (result o * st)) (more : st -> res bool)
         (body : Z -> Z -> prog unit) (ufuel fuel : nat) (s : st) : res st :=
  match fuel with
  | O => Err EOther
  | S f =>
      do b <- more s;
      if b then do s1 <- drun stp (sequence_iter body ufuel) s; stream_loop stp more body ufuel f s1
      else Ok s
  end.

(* @context_type(Stream) parse_stream: declare_list("sequences"); the loop *)
Definition stream_head : prog unit := pseqs [pop (OSetType 40); pop (ODeclList 200)].

Definition stream_des (body : Z -> Z -> prog unit) (ufuel fuel : nat) (bs : list bool) : res st :=
  do (_, s0) <- run des_step stream_head (init_st 0 [] bs);
  stream_loop des_step des_more body ufuel fuel s0.

Definition stream_ser (D : defaults) (body : Z -> Z -> prog unit) (ufuel fuel : nat) (ty : Z) (f : fields) : res st :=
  do (_, s0) <- run (ser_step D) stream_head (init_st ty f []);
  stream_loop (ser_step D) ser_more body ufuel fuel s0.

(* the data-unit bodies of vc2.py; picture and fragment bodies (they depend on the decoder state) are
   parameters *)
Definition pad_body (t ty npo : Z) : prog unit :=
  psub t ty (pop (OBytes 6 (Z.max 0 (npo - PARSE_INFO_HEADER_BYTES)))).
Definition vc2_body (pic_body frag_body : Z -> prog unit) (code npo : Z) : prog unit :=
  if code_seq_header code then Op (OSubEnter 203) (fun _ => pseq sequence_header_prog (pop OSubLeave))
  else if code_picture code then pic_body code
  else if code_fragment code then frag_body code
  else if code_auxiliary_data code then pad_body 204 3 npo
  else if code_padding_data code then pad_body 11 2 npo
  else Ret tt.
