(* Model of the encoder's fragment splitting
   (vc2_conformance/encoder/pictures.py: make_fragment_parse_data_units) and of the
   validator's fragment continuity rule (decoder/fragment_syntax.py: fragment_header /
   fragment_data), used by property C03.

   The Python loop `for sy in range(slices_y): for sx in range(slices_x):` is modelled as one
   loop over the raster slice number n = sy*slices_x + sx, with x = n mod slices_x and
   y = n / slices_x (the correspondence run compares the resulting fragment list with the
   real function's output for many (slices_x, slices_y, fragment_slice_count)). *)
From Coq Require Import ZArith List Bool.
Import ListNotations.
Open Scope Z_scope.

Record frag := mkfrag { f_count : Z; f_x : Z; f_y : Z }.

(* the slice-carrying fragments; acc is REVERSED (last fragment first), as the code
   appends to / increments fragment_data_units[-1] *)
Fixpoint split_loop (slices_x fsc : Z) (n : Z) (todo : nat) (rem : Z) (acc : list frag) : list frag :=
  match todo with
  | O => rev acc
  | S todo' =>
      let '(rem1, acc1) :=
        if rem =? 0 then (fsc, mkfrag 0 (n mod slices_x) (n / slices_x) :: acc) else (rem, acc) in
      let acc2 := match acc1 with
                  | f :: t => mkfrag (f_count f + 1) (f_x f) (f_y f) :: t
                  | [] => []
                  end in
      split_loop slices_x fsc (n + 1) todo' (rem1 - 1) acc2
  end.

(* first fragment (slice count 0) followed by the slice-carrying ones *)
Definition frag_split (slices_x slices_y fsc : Z) : list frag :=
  split_loop slices_x fsc 0 (Z.to_nat (slices_x * slices_y)) 0 [].

(* validator side: fragment_header's checks on each slice-carrying fragment after a first
   fragment initialised received = 0, remaining = slices_x*slices_y; end-of-sequence check
   remaining = 0 *)
Fixpoint frag_check (slices_x : Z) (frags : list frag) (received remaining : Z) : bool :=
  match frags with
  | [] => remaining =? 0
  | f :: r =>
      negb (f_count f =? 0) && (f_count f <=? remaining)
      && (f_x f =? received mod slices_x) && (f_y f =? received / slices_x)
      && frag_check slices_x r (received + f_count f) (remaining - f_count f)
  end.

(* number of data units a picture becomes *)
Definition units_per_picture (slices_x slices_y fsc : Z) : Z :=
  if fsc =? 0 then 1 else 1 + Z.of_nat (length (frag_split slices_x slices_y fsc)).
