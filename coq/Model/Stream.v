(* Model/Stream.v -- the bitstream validator's STREAM-LEVEL state machine (C01, C02 stage 1, C10)
   and, independently, the ten stream-structure rule checkers of the standard.

   Code modelled (vc2_conformance/decoder): stream.py parse_stream / parse_sequence / parse_info /
   padding / auxiliary_data; sequence_header.py sequence_header (byte comparison) and
   parse_parameters (version/profile checks, creation of _level_sequence_matcher);
   picture_syntax.py picture_header + the version logging of transform_parameters;
   fragment_syntax.py fragment_header / initialize_fragment_state / fragment_data;
   assertions.py assert_picture_number_incremented_as_expected, log_version_lower_bound,
   assert_major_version_is_minimal, assert_parse_code_in_sequence/_sequence_ended;
   pseudocode/state.py reset_state.

   A data unit is abstract: its kind with the few coded fields the stream level looks at, its
   TRUE byte length (the bytes the parser consumes for it) and the two CODED parse offsets.
   `step` follows the code statement by statement, in the same order, so that the class of the
   first error raised is modelled.  State entries are option-valued exactly where the code
   tests `in state` / `.get` or would raise KeyError on absence; entries assigned unconditionally
   at the top of parse_sequence (_generic_sequence_matcher, _num_pictures_in_sequence,
   _fragment_slices_remaining) are plain values.  Python exceptions which are not conformance
   errors are `Crash`.

   The two pattern matchers (symbol_re.Matcher, property C18) are ABSTRACT deterministic
   automata: Section variables.  No proofs in this file. *)
From Coq Require Import ZArith List Bool.
From VC2 Require Import Base.PyZ Gen.StateRec Gen.ParseCodes Gen.Version.
Import ListNotations.
Open Scope Z_scope.

(* ---------------------------------------------------------------- data units *)

(* ParseCodes names = the symbols fed to the matchers *)
Inductive symbol := SSeqHdr | SEos | SAux | SPad | SLdPic | SHqPic | SLdFrag | SHqFrag.

Definition symbol_code (s : symbol) : Z :=
  match s with
  | SSeqHdr => 0 | SEos => 16 | SAux => 32 | SPad => 48
  | SLdPic => 200 | SHqPic => 232 | SLdFrag => 204 | SHqFrag => 236
  end.

Definition symbol_eqb (a b : symbol) : bool := symbol_code a =? symbol_code b.

(* a sequence header: an id standing for its exact (recorded) bytes + the decoded fields used
   at stream level.  h_pvmin = the largest major_version implied by the header's video-parameter
   presets (version_constraints.preset_*_version_implication; 1 when none applies). *)
Record hdr := mkHdr {
  h_id : Z; h_major : Z; h_profile : Z; h_level : Z; h_pcm : Z; h_pvmin : Z }.

Definition hdr_eqb (a b : hdr) : bool :=
  (h_id a =? h_id b) && (h_major a =? h_major b) && (h_profile a =? h_profile b) &&
  (h_level a =? h_level b) && (h_pcm a =? h_pcm b) && (h_pvmin a =? h_pvmin b).

(* what transform_parameters contributes at stream level *)
Record tparams := mkTp { tp_wi : Z; tp_wi_ho : Z; tp_depth_ho : Z; tp_sx : Z; tp_sy : Z }.

Inductive kind :=
| KSeqHdr (h : hdr)
| KPic (hq : bool) (picnum : Z) (tp : tparams)
| KFragFirst (hq : bool) (picnum : Z) (tp : tparams)       (* fragment_slice_count = 0 *)
| KFragData (hq : bool) (picnum : Z) (count x y : Z)        (* fragment_slice_count = count <> 0 *)
| KPad | KAux | KEos.

Record dunit := mkUnit { u_kind : kind; u_len : Z; u_npo : Z; u_ppo : Z }.

Definition kind_symbol (k : kind) : symbol :=
  match k with
  | KSeqHdr _ => SSeqHdr
  | KPic hq _ _ => if hq then SHqPic else SLdPic
  | KFragFirst hq _ _ => if hq then SHqFrag else SLdFrag
  | KFragData hq _ _ _ _ => if hq then SHqFrag else SLdFrag
  | KPad => SPad | KAux => SAux | KEos => SEos
  end.
Definition u_symbol (u : dunit) : symbol := kind_symbol (u_kind u).

Definition is_eos_kind (k : kind) : bool := match k with KEos => true | _ => false end.
Definition is_picture_kind (k : kind) : bool :=
  match k with KPic _ _ _ => true | _ => false end.
Definition is_fragment_kind (k : kind) : bool :=
  match k with KFragFirst _ _ _ | KFragData _ _ _ _ _ => true | _ => false end.

(* ---------------------------------------------------------------- outcomes *)

(* decoder/exceptions.py classes reachable at stream level *)
Inductive verr :=
| UnexpectedEndOfStream | BadParseInfoPrefix
| InconsistentNextParseOffset | MissingNextParseOffset | InvalidNextParseOffset
| NonZeroNextParseOffsetAtEndOfSequence | InconsistentPreviousParseOffset
| NonZeroPreviousParseOffsetAtStartOfSequence
| SequenceHeaderChangedMidSequence | GenericInvalidSequence | LevelInvalidSequence
| ParseCodeNotAllowedInProfile | ValueNotAllowedInLevel
| NonConsecutivePictureNumbers | OddNumberOfFieldsInSequence | EarliestFieldHasOddPictureNumber
| ZeroSlicesInCodedPicture
| FragmentedPictureRestarted | SequenceContainsIncompleteFragmentedPicture
| PictureInterleavedWithFragmentedPicture | PictureNumberChangedMidFragmentedPicture
| TooManySlicesInFragmentedPicture | FragmentSlicesNotContiguous
| PresetNotSupportedByVersion        (* the six Preset*NotSupportedByVersion classes *)
| ParseCodeNotSupportedByVersion | ProfileNotSupportedByVersion
| MajorVersionTooLow | MajorVersionTooHigh
| BadProfile | BadLevel.

(* non-conformance Python exceptions *)
Inductive crash :=
| KeyError_last_picture_number | KeyError_picture_initial_fragment_offset
| KeyError_fragment_slices_received | KeyError_slices_x
| KeyError_major_version | KeyError_picture_coding_mode
| UnboundLocalError_true_parse_offset | TypeError_none_offset | AssertionError_level_matcher
| ZeroDivisionError_slices_x.

Inductive res (A : Type) := Ok (a : A) | Reject (e : verr) | Crash (c : crash).
Arguments Ok {A} _. Arguments Reject {A} _. Arguments Crash {A} _.

Inductive verdict := Accept | VReject (e : verr) | VCrash (c : crash).

Definition bind {A B} (r : res A) (k : A -> res B) : res B :=
  match r with Ok a => k a | Reject e => Reject e | Crash c => Crash c end.
Notation "'do' x <- e ; k" := (bind e (fun x => k)) (at level 200, x pattern, e at level 100, k at level 200).
(* `raise_if c e k`:  if c: raise e  *)
Definition raise_if {A} (c : bool) (e : verr) (k : res A) : res A := if c then Reject e else k.
Definition get {A B} (o : option A) (c : crash) (k : A -> res B) : res B :=
  match o with Some a => k a | None => Crash c end.

Definition MINIMUM_MAJOR_VERSION : Z := 1.
Definition PARSE_INFO_HEADER_BYTES : Z := 13.

(* vc2_data_tables.PROFILES[profile].allowed_parse_codes (external table; the correspondence run
   compares this definition with the live table) *)
Definition profile_allows (profile : Z) (s : symbol) : bool :=
  match s with
  | SLdPic | SLdFrag => profile =? 0
  | SHqPic | SHqFrag => profile =? 3
  | _ => true
  end.

(* membership of the vc2_data_tables.Profiles enum *)
Definition profile_known (profile : Z) : bool := (profile =? 0) || (profile =? 3).

Definition all_symbols := [SSeqHdr; SEos; SAux; SPad; SLdPic; SHqPic; SLdFrag; SHqFrag].

(* version_constraints.parse_code_version_implication on the parse code of a symbol (tie T) *)
Definition symbol_version (s : symbol) : Z := parse_code_version_implication (symbol_code s).

(* ---------------------------------------------------------------- validator *)
Section Validator.
  (* generic matcher: Matcher("sequence_header .* end_of_sequence") *)
  Variable gst : Type.
  Variable gstart : gst.
  Variable gstep : gst -> symbol -> option gst.
  Variable gcomplete : gst -> bool.
  (* level matchers: Matcher(LEVEL_SEQUENCE_RESTRICTIONS[level].sequence_restriction_regex) *)
  Variable lst : Type.
  Variable lstart : Z -> lst.
  Variable lstep : Z -> lst -> symbol -> option lst.
  Variable lcomplete : Z -> lst -> bool.
  (* membership of the vc2_data_tables.Levels enum *)
  Variable level_known : Z -> bool.
  (* true: the behaviour of the pinned tree (two defects: parse_info UnboundLocalError,
     fragment_header KeyError); false: the repaired behaviour (fixes/C02-parse-info-unbound.diff,
     fixes/C01-fragment-without-first.diff) *)
  Variable pinned : bool.

  (* parse_info bookkeeping.  p_prev_len = this_parse_info_offset - state["_last_parse_info_offset"]
     as it will be computed by the NEXT parse_info, i.e. the number of bytes consumed for the
     previous data unit (None: "_last_parse_info_offset" absent); p_npo = state["next_parse_offset"] *)
  Record pstate := mkP { p_prev_len : option Z; p_npo : option Z }.
  (* sequence-header derived entries *)
  Record hstate := mkH { s_last_hdr : option Z; s_profile : option Z; s_major : option Z;
                         s_pcm : option Z; s_expected_major : option Z }.
  (* picture numbering *)
  Record nstate := mkN { n_last_picnum : option Z; n_num_pictures : Z }.
  (* fragment bookkeeping *)
  Record fstate := mkF { f_remaining : Z; f_received : option Z; f_init_offset : bool;
                         f_slices_x : option Z; f_slices_y : option Z }.
  (* matchers; the level matcher remembers the level it was created for *)
  Record mstate := mkM { m_gen : gst; m_lvl : option (Z * lst) }.
  Record vstate := mkV { vp : pstate; vh : hstate; vn : nstate; vf : fstate; vm : mstate }.

  (* reset_state + the three assignments at the top of parse_sequence *)
  Definition init_state : vstate :=
    mkV (mkP None None) (mkH None None None None None) (mkN None 0)
        (mkF 0 None false None None) (mkM gstart None).

  Definition log_version_lower_bound (h : hstate) (v : Z) : hstate :=
    mkH (s_last_hdr h) (s_profile h) (s_major h) (s_pcm h)
        (Some (Z.max (match s_expected_major h with Some e => e | None => MINIMUM_MAJOR_VERSION end) v)).

  (* ---- (10.5.1) parse_info, check by check, in the order of the code *)

  (* previous next_parse_offset consistent?   `if state.get("next_parse_offset"):` *)
  Definition chk_prev_npo (p : pstate) : res unit :=
    match p_npo p with
    | Some n => if n =? 0 then Ok tt
                else get (p_prev_len p) TypeError_none_offset (fun true_off =>
                     raise_if (negb (n =? true_off)) InconsistentNextParseOffset (Ok tt))
    | None => Ok tt
    end.
  (* (prefix and parse code are those of a well-formed data unit) *)
  (* generic matcher *)
  Definition chk_gen (m : mstate) (sym : symbol) : res gst :=
    match gstep (m_gen m) sym with Some g => Ok g | None => Reject GenericInvalidSequence end.
  (* level matcher, if created *)
  Definition chk_lvl (m : mstate) (sym : symbol) : res (option (Z * lst)) :=
    match m_lvl m with
    | Some (lvl, ls) => match lstep lvl ls sym with
                        | Some ls' => Ok (Some (lvl, ls'))
                        | None => Reject LevelInvalidSequence
                        end
    | None => Ok None
    end.
  (* profile, if known *)
  Definition chk_profile (h : hstate) (sym : symbol) : res unit :=
    match s_profile h with
    | Some pr => raise_if (negb (profile_allows pr sym)) ParseCodeNotAllowedInProfile (Ok tt)
    | None => Ok tt
    end.
  (* parse code supported by major_version (MINIMUM_MAJOR_VERSION when not yet known) *)
  Definition chk_version (h : hstate) (sym : symbol) : res unit :=
    let major := match s_major h with Some m => m | None => MINIMUM_MAJOR_VERSION end in
    raise_if (major <? symbol_version sym) ParseCodeNotSupportedByVersion (Ok tt).
  (* next_parse_offset plausible *)
  Definition chk_npo (u : dunit) : res unit :=
    let npo := u_npo u in
    do _ <- (if is_eos_kind (u_kind u)
             then raise_if (negb (npo =? 0)) NonZeroNextParseOffsetAtEndOfSequence (Ok tt)
             else if negb (is_picture_kind (u_kind u) || is_fragment_kind (u_kind u))
                  then raise_if (npo =? 0) MissingNextParseOffset (Ok tt)
                  else Ok tt);
    raise_if ((1 <=? npo) && (npo <? PARSE_INFO_HEADER_BYTES)) InvalidNextParseOffset (Ok tt).
  (* previous_parse_offset *)
  Definition chk_ppo (p : pstate) (u : dunit) : res unit :=
    match p_prev_len p with
    | None => raise_if (negb (u_ppo u =? 0)) NonZeroPreviousParseOffsetAtStartOfSequence (Ok tt)
    | Some true_prev =>
        if negb (u_ppo u =? true_prev)
        then (* pinned: the raise evaluates `true_parse_offset`, which is only assigned when the
                previous next_parse_offset was truthy *)
             if pinned && match p_npo p with Some n => n =? 0 | None => true end
             then Crash UnboundLocalError_true_parse_offset
             else Reject InconsistentPreviousParseOffset
        else Ok tt
    end.

  (* Returns the state after `state["_last_parse_info_offset"] = this_parse_info_offset`;
     p_prev_len of the result is still that of the previous unit (the caller sets it to the byte
     length of THIS unit once the unit is consumed). *)
  Definition parse_info (s : vstate) (u : dunit) : res vstate :=
    let sym := u_symbol u in
    do _ <- chk_prev_npo (vp s);
    do g <- chk_gen (vm s) sym;
    do l <- chk_lvl (vm s) sym;
    do _ <- chk_profile (vh s) sym;
    do _ <- chk_version (vh s) sym;
    do _ <- chk_npo u;
    do _ <- chk_ppo (vp s) u;
    Ok (mkV (mkP (p_prev_len (vp s)) (Some (u_npo u)))
            (log_version_lower_bound (vh s) (symbol_version sym)) (vn s) (vf s) (mkM g l)).

  (* ---- (11.1) sequence_header / (11.2.1) parse_parameters *)
  Definition chk_hdr_params (h : hdr) : res unit :=
    raise_if (h_major h <? MINIMUM_MAJOR_VERSION) MajorVersionTooLow (
    raise_if (negb (profile_known (h_profile h))) BadProfile (
    raise_if (h_major h <? profile_version_implication (h_profile h)) ProfileNotSupportedByVersion (
    raise_if (negb (level_known (h_level h))) BadLevel (Ok tt)))).
  (* level matcher created (and fed "sequence_header", under `assert`) on the first header *)
  Definition make_lvl (m : mstate) (h : hdr) : res (Z * lst) :=
    match m_lvl m with
    | Some l => Ok l
    | None => match lstep (h_level h) (lstart (h_level h)) SSeqHdr with
              | Some ls => Ok (h_level h, ls)
              | None => Crash AssertionError_level_matcher
              end
    end.
  (* assert_level_constraint(state, "level", ...): the values recorded so far in this sequence pin
     the level (every column of the constraint table has exactly one level) *)
  Definition chk_lvl_value (l : Z * lst) (h : hdr) : res unit :=
    raise_if (negb (fst l =? h_level h)) ValueNotAllowedInLevel (Ok tt).
  (* video parameter presets supported by major_version *)
  Definition chk_presets (h : hdr) : res unit :=
    raise_if (h_major h <? h_pvmin h) PresetNotSupportedByVersion (Ok tt).
  (* byte-for-byte comparison with the previous header of the sequence *)
  Definition chk_hdr_same (hs : hstate) (h : hdr) : res unit :=
    match s_last_hdr hs with
    | Some i => raise_if (negb (i =? h_id h)) SequenceHeaderChangedMidSequence (Ok tt)
    | None => Ok tt
    end.

  Definition sequence_header (s : vstate) (h : hdr) : res vstate :=
    do _ <- chk_hdr_params h;
    do l <- make_lvl (vm s) h;
    do _ <- chk_lvl_value l h;
    do _ <- chk_presets h;
    do _ <- chk_hdr_same (vh s) h;
    let hs := log_version_lower_bound
                (log_version_lower_bound (vh s) (profile_version_implication (h_profile h))) (h_pvmin h) in
    Ok (mkV (vp s)
            (mkH (Some (h_id h)) (Some (h_profile h)) (Some (h_major h)) (Some (h_pcm h)) (s_expected_major hs))
            (vn s) (vf s) (mkM (m_gen (vm s)) (Some l))).

  (* ---- assertions.assert_picture_number_incremented_as_expected *)
  Definition picture_number_step (pcm : option Z) (ns : nstate) (n : Z) : res nstate :=
    do _ <- match n_last_picnum ns with
            | Some l => raise_if (negb (n =? (l + 1) mod 4294967296)) NonConsecutivePictureNumbers (Ok tt)
            | None => Ok tt
            end;
    get pcm KeyError_picture_coding_mode (fun pcm =>
    raise_if ((pcm =? 1) && (n_num_pictures ns mod 2 =? 0) && negb (n mod 2 =? 0))
             EarliestFieldHasOddPictureNumber (
    Ok (mkN (Some n) (n_num_pictures ns + 1)))).

  (* ---- (12.4.1) transform_parameters: extended parameters are only present (and their version
     implication only logged) when major_version >= 3; then slice_parameters *)
  Definition tp_version (h : hstate) (tp : tparams) : res hstate :=
    get (s_major h) KeyError_major_version (fun major =>
    Ok (if 3 <=? major
        then log_version_lower_bound h
               (wavelet_transform_version_implication (tp_wi tp) (tp_wi_ho tp) (tp_depth_ho tp))
        else h)).
  Definition chk_slices (tp : tparams) : res unit :=
    raise_if ((tp_sx tp =? 0) || (tp_sy tp =? 0)) ZeroSlicesInCodedPicture (Ok tt).

  (* no fragmented picture may be in progress (the error's arguments read two state entries) *)
  Definition chk_frag_closed (f : fstate) (e : verr) : res unit :=
    if negb (f_remaining f =? 0)
    then if negb (f_init_offset f) then Crash KeyError_picture_initial_fragment_offset
         else get (f_received f) KeyError_fragment_slices_received (fun _ => Reject e)
    else Ok tt.

  (* ---- (14.2) fragment_header for a slice-bearing fragment *)
  Definition chk_frag_picnum (last : option Z) (n : Z) : res unit :=
    match last with
    | Some l => raise_if (negb (l =? n)) PictureNumberChangedMidFragmentedPicture (Ok tt)
    | None => if pinned then Crash KeyError_last_picture_number else Ok tt
    end.
  Definition chk_frag_count (f : fstate) (count : Z) : res unit :=
    if f_remaining f <? count
    then if pinned && negb (f_init_offset f) then Crash KeyError_picture_initial_fragment_offset
         else Reject TooManySlicesInFragmentedPicture
    else Ok tt.
  (* raster order, then (14.4) fragment_data: count slices received *)
  Definition frag_data (f : fstate) (count x y : Z) : res fstate :=
    get (f_received f) KeyError_fragment_slices_received (fun rcv =>
    get (f_slices_x f) KeyError_slices_x (fun sx =>
    if sx =? 0 then Crash ZeroDivisionError_slices_x else
    if negb (x =? rcv mod sx) || negb (y =? rcv / sx)
    then if negb (f_init_offset f) then Crash KeyError_picture_initial_fragment_offset
         else Reject FragmentSlicesNotContiguous
    else Ok (mkF (f_remaining f - count) (Some (rcv + count)) (f_init_offset f) (f_slices_x f) (f_slices_y f)))).

  (* ---- the body of the parse_sequence loop for one (non end_of_sequence) data unit *)
  Definition data_unit (s : vstate) (u : dunit) : res vstate :=
    match u_kind u with
    | KSeqHdr h => sequence_header s h
    | KPic _ n tp =>
        do _ <- chk_frag_closed (vf s) PictureInterleavedWithFragmentedPicture;
        do ns <- picture_number_step (s_pcm (vh s)) (vn s) n;
        do hs <- tp_version (vh s) tp;
        do _ <- chk_slices tp;
        let f := vf s in
        Ok (mkV (vp s) hs ns
                (mkF (f_remaining f) (f_received f) (f_init_offset f) (Some (tp_sx tp)) (Some (tp_sy tp)))
                (vm s))
    | KFragFirst _ n tp =>
        do _ <- chk_frag_closed (vf s) FragmentedPictureRestarted;
        do ns <- picture_number_step (s_pcm (vh s)) (vn s) n;
        (* state["_picture_initial_fragment_offset"] = fragment_offset *)
        do hs <- tp_version (vh s) tp;
        do _ <- chk_slices tp;
        (* initialize_fragment_state *)
        Ok (mkV (vp s) hs ns
                (mkF (tp_sx tp * tp_sy tp) (Some 0) true (Some (tp_sx tp)) (Some (tp_sy tp)))
                (vm s))
    | KFragData _ n count x y =>
        do _ <- chk_frag_picnum (n_last_picnum (vn s)) n;
        do _ <- chk_frag_count (vf s) count;
        do f <- frag_data (vf s) count x y;
        Ok (mkV (vp s) (vh s) (vn s) f (vm s))
    | KPad | KAux | KEos => Ok s
    end.

  (* ---- the checks after the parse_sequence loop *)
  Definition chk_gen_complete (m : mstate) : res unit :=
    raise_if (negb (gcomplete (m_gen m))) GenericInvalidSequence (Ok tt).
  Definition chk_lvl_complete (m : mstate) : res unit :=
    match m_lvl m with
    | Some (lvl, ls) => raise_if (negb (lcomplete lvl ls)) LevelInvalidSequence (Ok tt)
    | None => Ok tt
    end.
  Definition chk_whole_frames (pcm : option Z) (ns : nstate) : res unit :=
    get pcm KeyError_picture_coding_mode (fun pcm =>
    raise_if ((pcm =? 1) && negb (n_num_pictures ns mod 2 =? 0)) OddNumberOfFieldsInSequence (Ok tt)).
  (* assert_major_version_is_minimal *)
  Definition chk_version_minimal (h : hstate) (ns : nstate) : res unit :=
    get (s_major h) KeyError_major_version (fun major =>
    let expected := match s_expected_major h with Some e => e | None => MINIMUM_MAJOR_VERSION end in
    if (n_num_pictures ns =? 0) && (major =? 3) then Ok tt
    else raise_if (expected <? major) MajorVersionTooHigh (Ok tt)).

  Definition end_of_sequence (s : vstate) : res unit :=
    do _ <- chk_gen_complete (vm s);
    do _ <- chk_lvl_complete (vm s);
    do _ <- chk_frag_closed (vf s) SequenceContainsIncompleteFragmentedPicture;
    do _ <- chk_whole_frames (s_pcm (vh s)) (vn s);
    chk_version_minimal (vh s) (vn s).

  (* outcome of one data unit *)
  Inductive step_result := Continue (s : vstate) | SeqDone | Fail (v : verdict).

  Definition total_len (us : list dunit) : Z := fold_right (fun u a => u_len u + a) 0 us.

  (* one iteration: parse_info, then the data unit.  `rest` (the units that follow) is only used
     to tell UnexpectedEndOfStream from BadParseInfoPrefix when a padding/auxiliary unit's coded
     next_parse_offset (which DEFINES how many bytes the parser skips) is not its true length:
     the parser then looks for the next parse_info prefix in the wrong place. *)
  Definition step (s : vstate) (u : dunit) (rest : list dunit) : step_result :=
    match parse_info s u with
    | Reject e => Fail (VReject e)
    | Crash c => Fail (VCrash c)
    | Ok s1 =>
        if is_eos_kind (u_kind u) then
          match end_of_sequence s1 with
          | Ok _ => SeqDone
          | Reject e => Fail (VReject e)
          | Crash c => Fail (VCrash c)
          end
        else
          match data_unit s1 u with
          | Reject e => Fail (VReject e)
          | Crash c => Fail (VCrash c)
          | Ok s2 =>
              match u_kind u with
              | KPad | KAux =>
                  if u_npo u =? u_len u
                  then Continue (mkV (mkP (Some (u_len u)) (p_npo (vp s2))) (vh s2) (vn s2) (vf s2) (vm s2))
                  else if u_npo u + 4 <=? u_len u + total_len rest
                       then Fail (VReject BadParseInfoPrefix)
                       else Fail (VReject UnexpectedEndOfStream)
              | _ => Continue (mkV (mkP (Some (u_len u)) (p_npo (vp s2))) (vh s2) (vn s2) (vf s2) (vm s2))
              end
          end
    end.

  (* parse_stream: `while not is_end_of_stream(state): parse_sequence(state)`; running out of
     data units inside a sequence is UnexpectedEndOfStream (read at EOF in parse_info).
     `fresh` = we are between sequences. *)
  (* the data ends inside a sequence: parse_info still checks the previous next_parse_offset
     against the (end of file) position before its first read raises UnexpectedEndOfStream *)
  Definition eof_in_sequence (s : vstate) : verdict :=
    match p_npo (vp s) with
    | Some n =>
        if n =? 0 then VReject UnexpectedEndOfStream
        else match p_prev_len (vp s) with
             | None => VCrash TypeError_none_offset
             | Some t => if negb (n =? t) then VReject InconsistentNextParseOffset
                         else VReject UnexpectedEndOfStream
             end
    | None => VReject UnexpectedEndOfStream
    end.

  Fixpoint run_from (fresh : bool) (s : vstate) (us : list dunit) : verdict :=
    match us with
    | [] => if fresh then Accept else eof_in_sequence s
    | u :: rest =>
        match step s u rest with
        | Fail v => v
        | SeqDone => run_from true init_state rest
        | Continue s' => run_from false s' rest
        end
    end.

  Definition run (us : list dunit) : verdict := run_from true init_state us.
  Definition run_stream (seqs : list (list dunit)) : verdict := run (concat seqs).

  (* observation for C10: index of the sequence (0-based) in which the verdict was reached, and
     the picture numbers output (one per completed picture), in order *)
  Fixpoint run_obs (fresh : bool) (s : vstate) (us : list dunit) (seq_idx : Z) (pics : list Z)
    : verdict * Z * list Z :=
    match us with
    | [] => (if fresh then Accept else eof_in_sequence s, seq_idx, pics)
    | u :: rest =>
        match step s u rest with
        | Fail v => (v, seq_idx, pics)
        | SeqDone => run_obs true init_state rest (seq_idx + 1) pics
        | Continue s' =>
            let pics' :=
              match u_kind u with
              | KPic _ n _ => pics ++ [n]
              | KFragData _ n _ _ _ => if f_remaining (vf s') =? 0 then pics ++ [n] else pics
              | _ => pics
              end in
            run_obs false s' rest seq_idx pics'
        end
    end.
End Validator.
Arguments m_gen {gst lst} _.
Arguments m_lvl {gst lst} _.
Arguments mkM {gst lst} _ _.
Arguments vp {gst lst} _.
Arguments vh {gst lst} _.
Arguments vn {gst lst} _.
Arguments vf {gst lst} _.
Arguments vm {gst lst} _.
Arguments mkV {gst lst} _ _ _ _ _.
Arguments Continue {gst lst} _.
Arguments SeqDone {gst lst}.
Arguments Fail {gst lst} _.

(* ---------------------------------------------------------------- the rules, independently *)
(* Ten independent checkers over ONE sequence (a list of data units).  Each is a short fold over
   the whole list and looks only at what its rule talks about.  Written from the property text /
   the standard, not from the validator. *)

Definition first_hdr (us : list dunit) : option hdr :=
  match us with
  | u :: _ => match u_kind u with KSeqHdr h => Some h | _ => None end
  | [] => None
  end.

(* 1. sequence header first, end of sequence last (and only last) *)
Fixpoint eos_only_last (us : list dunit) : bool :=
  match us with
  | [] => false
  | [u] => is_eos_kind (u_kind u)
  | u :: r => negb (is_eos_kind (u_kind u)) && eos_only_last r
  end.
Definition ends_ok (us : list dunit) : bool :=
  match first_hdr us with Some _ => eos_only_last us | None => false end.

(* 2. parse offsets: previous_parse_offset = length of the previous unit (0 for the first);
   next_parse_offset = length of this unit; it may be 0 for pictures and fragments and must be 0
   for the end of sequence *)
Definition npo_ok (u : dunit) : bool :=
  match u_kind u with
  | KEos => u_npo u =? 0
  | KPic _ _ _ | KFragFirst _ _ _ | KFragData _ _ _ _ _ => (u_npo u =? 0) || (u_npo u =? u_len u)
  | _ => u_npo u =? u_len u
  end.
Fixpoint offsets_from (prev : Z) (us : list dunit) : bool :=
  match us with
  | [] => true
  | u :: r => (u_ppo u =? prev) && npo_ok u && offsets_from (u_len u) r
  end.
Definition offsets_ok (us : list dunit) : bool := offsets_from 0 us.

(* 3. repeated sequence headers are byte-identical to the first *)
Definition headers_identical (us : list dunit) : bool :=
  match first_hdr us with
  | Some h0 => forallb (fun u => match u_kind u with KSeqHdr h => h_id h =? h_id h0 | _ => true end) us
  | None => true
  end.

(* 4. only parse codes the profile permits *)
Definition codes_allowed_in_profile (us : list dunit) : bool :=
  match first_hdr us with
  | Some h0 => forallb (fun u => profile_allows (h_profile h0) (u_symbol u)) us
  | None => true
  end.

(* 5. major_version: supports everything used, and is the smallest such version -- except that an
   empty sequence (no pictures) may carry version 3 *)
Definition unit_version (u : dunit) : Z :=
  match u_kind u with
  | KPic _ _ tp | KFragFirst _ _ tp =>
      Z.max (symbol_version (u_symbol u))
            (wavelet_transform_version_implication (tp_wi tp) (tp_wi_ho tp) (tp_depth_ho tp))
  | _ => symbol_version (u_symbol u)
  end.
Definition hdr_version (h : hdr) : Z :=
  Z.max MINIMUM_MAJOR_VERSION (Z.max (profile_version_implication (h_profile h)) (h_pvmin h)).
Definition is_new_picture (u : dunit) : bool :=
  match u_kind u with KPic _ _ _ | KFragFirst _ _ _ => true | _ => false end.
Definition count_pictures (us : list dunit) : Z := Z.of_nat (length (filter is_new_picture us)).
Definition version_ok (us : list dunit) : bool :=
  match first_hdr us with
  | Some h0 =>
      let needed := fold_right (fun u a => Z.max (unit_version u) a) (hdr_version h0) us in
      (* support: nothing used needs more than major_version *)
      (hdr_version h0 <=? h_major h0) &&
      forallb (fun u => symbol_version (u_symbol u) <=? h_major h0) us &&
      (* minimality *)
      ((h_major h0 <=? needed) || ((count_pictures us =? 0) && (h_major h0 =? 3)))
  | None => true
  end.

(* 6. picture numbers consecutive mod 2^32; when pictures are fields the first field of each
   frame (even position in the sequence) has an even number *)
Fixpoint picnums_from (fields : bool) (last : option Z) (idx : Z) (us : list dunit) : bool :=
  match us with
  | [] => true
  | u :: r =>
      match u_kind u with
      | KPic _ n _ | KFragFirst _ n _ =>
          match last with Some l => n =? (l + 1) mod 4294967296 | None => true end &&
          (negb fields || negb (idx mod 2 =? 0) || (n mod 2 =? 0)) &&
          picnums_from fields (Some n) (idx + 1) r
      | _ => picnums_from fields last idx r
      end
  end.
Definition picnums_ok (us : list dunit) : bool :=
  match first_hdr us with
  | Some h0 => picnums_from (h_pcm h0 =? 1) None 0 us
  | None => true
  end.

(* 7. when pictures are fields the sequence holds whole frames *)
Definition whole_frames (us : list dunit) : bool :=
  match first_hdr us with
  | Some h0 => negb (h_pcm h0 =? 1) || (count_pictures us mod 2 =? 0)
  | None => true
  end.

(* 8. fragmented pictures: an initial zero-slice fragment, then slice fragments with the same
   picture number, contiguous in raster order, never more than the picture has, not interleaved
   with pictures or another fragmented picture, complete before the sequence ends.
   Checker state: None = no fragmented picture in progress; Some (picnum, slices_x, received,
   remaining) with remaining > 0 *)
Definition frag_open := option (Z * Z * Z * Z).
Definition frag_step (o : frag_open) (u : dunit) : option frag_open :=
  match u_kind u, o with
  | KPic _ _ _, None => Some None
  | KPic _ _ _, Some _ => None
  | KFragFirst _ n tp, None =>
      Some (Some (n, tp_sx tp, 0, tp_sx tp * tp_sy tp))
  | KFragFirst _ _ _, Some _ => None
  | KFragData _ n c x y, Some (n0, sx, rcv, rem) =>
      if (n =? n0) && (c <=? rem) && (x =? rcv mod sx) && (y =? rcv / sx)
      then Some (if rem - c =? 0 then None else Some (n0, sx, rcv + c, rem - c))
      else None
  | KFragData _ _ _ _ _, None => None
  | _, _ => Some o
  end.
Fixpoint frags_from (o : frag_open) (us : list dunit) : bool :=
  match us with
  | [] => match o with None => true | Some _ => false end
  | u :: r => match frag_step o u with Some o' => frags_from o' r | None => false end
  end.
Definition fragments_ok (us : list dunit) : bool := frags_from None us.

(* 9./10. the level's and the generic data-unit ordering patterns: the whole sequence of parse
   codes is matched by the (abstract) automaton *)
Section Patterns.
  Variable st : Type.
  Variable astep : st -> symbol -> option st.
  Variable acomplete : st -> bool.
  Fixpoint automaton_accepts (s : st) (syms : list symbol) : bool :=
    match syms with
    | [] => acomplete s
    | x :: r => match astep s x with Some s' => automaton_accepts s' r | None => false end
    end.
End Patterns.

Section Rules.
  Variable gst : Type.
  Variable gstart : gst.
  Variable gstep : gst -> symbol -> option gst.
  Variable gcomplete : gst -> bool.
  Variable lst : Type.
  Variable lstart : Z -> lst.
  Variable lstep : Z -> lst -> symbol -> option lst.
  Variable lcomplete : Z -> lst -> bool.

  Definition generic_pattern_ok (us : list dunit) : bool :=
    automaton_accepts gst gstep gcomplete gstart (map u_symbol us).
  Definition level_pattern_ok (us : list dunit) : bool :=
    match first_hdr us with
    | Some h0 => automaton_accepts lst (lstep (h_level h0)) (lcomplete (h_level h0)) (lstart (h_level h0))
                                   (map u_symbol us)
    | None => true
    end.

  Definition rules_ok (us : list dunit) : bool :=
    ends_ok us && offsets_ok us && headers_identical us && codes_allowed_in_profile us &&
    version_ok us && picnums_ok us && whole_frames us && fragments_ok us &&
    level_pattern_ok us && generic_pattern_ok us.
End Rules.

(* The two facts about the matchers the theorems need (they are facts about the patterns, property
   C18's business), as decidable checks so that the correspondence run can evaluate them on the
   automata dumped from the real Matcher:
   - the generic pattern lets a sequence start with a sequence header only;
   - the pattern of every level of the Levels enum lets a sequence start with a sequence header
     (the `assert` after the level matcher is created). *)
Definition gen_first_is_seqhdr_b {gst : Type} (gstart : gst) (gstep : gst -> symbol -> option gst) : bool :=
  forallb (fun sym => match gstep gstart sym with Some _ => symbol_eqb sym SSeqHdr | None => true end) all_symbols.
Definition lvl_accepts_seqhdr_b {lst : Type} (lstart : Z -> lst) (lstep : Z -> lst -> symbol -> option lst)
           (l : Z) : bool :=
  match lstep l (lstart l) SSeqHdr with Some _ => true | None => false end.

(* split a stream (flat list of data units) into sequences: after every end_of_sequence unit *)
Fixpoint split_eos_aux (cur : list dunit) (us : list dunit) : list (list dunit) :=
  match us with
  | [] => match cur with [] => [] | _ => [rev cur] end
  | u :: r => if is_eos_kind (u_kind u) then rev (u :: cur) :: split_eos_aux [] r
              else split_eos_aux (u :: cur) r
  end.
Definition split_eos (us : list dunit) : list (list dunit) := split_eos_aux [] us.

(* `us` is (at most) one sequence of a stream: non-empty, and no data unit follows an end of
   sequence *)
Fixpoint eos_at_most_last (us : list dunit) : bool :=
  match us with
  | [] => true
  | u :: r => (negb (is_eos_kind (u_kind u)) || match r with [] => true | _ => false end) && eos_at_most_last r
  end.
Definition one_sequence (us : list dunit) : bool :=
  match us with [] => false | _ => eos_at_most_last us end.

(* ---------------------------------------------------------------- "individually valid data units" *)
(* The property's hypothesis, for one sequence:
   - a data unit is at least its 13-byte parse_info long;
   - sequence headers carry a profile and a level of the respective enums, and two sequence headers
     with the same bytes (id) decode to the same fields;
   - a slice-bearing fragment codes a positive slice count (that is what makes it one; the field
     is unsigned), pictures code at least one slice in each direction;
   - picture payloads were produced for the major_version of the sequence's header: below version
     3 there are no extended transform parameters, so the horizontal-only wavelet/depth are the
     defaults (wavelet_index_ho = wavelet_index, dwt_depth_ho = 0).
   Nothing about ordering, offsets, numbering, versions, profiles or levels. *)
Definition tp_valid (major : Z) (tp : tparams) : bool :=
  (0 <? tp_sx tp) && (0 <? tp_sy tp) &&
  ((3 <=? major) || ((tp_wi_ho tp =? tp_wi tp) && (tp_depth_ho tp =? 0))).
Definition unit_valid (level_known : Z -> bool) (h0 : option hdr) (u : dunit) : bool :=
  (PARSE_INFO_HEADER_BYTES <=? u_len u) &&
  match u_kind u with
  | KSeqHdr h => profile_known (h_profile h) && level_known (h_level h) &&
                 match h0 with Some h0 => negb (h_id h =? h_id h0) || hdr_eqb h h0 | None => true end
  | KPic _ _ tp | KFragFirst _ _ tp =>
      match h0 with Some h0 => tp_valid (h_major h0) tp | None => true end
  | KFragData _ _ c _ _ => 0 <? c
  | _ => true
  end.
Definition units_valid (level_known : Z -> bool) (us : list dunit) : bool :=
  forallb (unit_valid level_known (first_hdr us)) us.
