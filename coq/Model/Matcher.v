(* Model of vc2_conformance/symbol_re.py, part 3: NFANode.equivalent_nodes /
   follow and the Matcher (match_symbol, is_complete, valid_next_symbols).
   Sets of nodes are duplicate-free lists; only membership is observable.
   No proofs in here (Proofs/MatcherProofs.v). *)
From Coq Require Import ZArith List Bool.
From VC2 Require Import Model.Regex Model.NFA.
Import ListNotations.

Definition mem (x : nat) (l : list nat) : bool := existsb (Nat.eqb x) l.

(* S0 plus the targets of the empty transitions E that leave S0 *)
Fixpoint expand (E : list (nat * nat)) (S0 : list nat) : list nat :=
  match E with
  | [] => S0
  | (p, q) :: E' =>
    let acc := expand E' S0 in
    if mem p S0 && negb (mem q acc) then q :: acc else acc
  end.

(* graph search of `equivalent_nodes`: repeat until nothing new is found.
   `expand` only ever conses new nodes, so "nothing new" = same length. *)
Fixpoint saturate (fuel : nat) (E : list (nat * nat)) (S0 : list nat) : list nat :=
  match fuel with
  | O => S0
  | S f =>
    let S1 := expand E S0 in
    if Nat.eqb (length S1) (length S0) then S0 else saturate f E S1
  end.

(* union of `equivalent_nodes()` over a set of nodes; the fuel (number of nodes
   + 1) is always enough: MatcherProofs.closure_spec *)
Definition closure (mode : eps_mode) (N : nfa) (S0 : list nat) : list nat :=
  saturate (S (n_next N)) (eps_of mode N) S0.

Definition label_eqb (a b : label) : bool :=
  match a, b with
  | LSym s, LSym t => Z.eqb s t
  | LAny, LAny => true
  | LEos, LEos => true
  | _, _ => false
  end.

(* union over `C` of `transitions[l]` *)
Fixpoint targets (edges : list (nat * label * nat)) (C : list nat) (want : label -> bool) : list nat :=
  match edges with
  | [] => []
  | (p, l, q) :: E' =>
    let acc := targets E' C want in
    if mem p C && want l && negb (mem q acc) then q :: acc else acc
  end.

Record matcher := mkMatcher {
  m_mode : eps_mode;
  m_nfa : nfa;
  m_cur : list nat   (* cur_states *)
}.

Definition new_matcher (mode : eps_mode) (r : re) : matcher :=
  let N := from_ast r in mkMatcher mode N [n_start N].

Definition m_closure (m : matcher) : list nat := closure (m_mode m) (m_nfa m) (m_cur m).

(* `new_states` of match_symbol: follow(symbol) and follow(WILDCARD) from every
   current state *)
Definition next_states (m : matcher) (s : sym) : list nat :=
  targets (n_edges (m_nfa m)) (m_closure m) (fun l => lmatch l (Real s)).

Definition match_symbol (m : matcher) (s : sym) : bool * matcher :=
  match next_states m s with
  | [] => (false, m)
  | new => (true, mkMatcher (m_mode m) (m_nfa m) new)
  end.

Definition is_eos (l : label) : bool := match l with LEos => true | _ => false end.

Definition is_complete (m : matcher) : bool :=
  let C := m_closure m in
  mem (n_final (m_nfa m)) C
  || existsb (fun e => match e with (p, l, _) => mem p C && is_eos l end) (n_edges (m_nfa m)).

(* the keys (other than None) of `transitions` of the equivalent nodes, plus
   END_OF_SEQUENCE when complete.  (May list a label twice; it is a set.) *)
Fixpoint out_labels (edges : list (nat * label * nat)) (C : list nat) : list label :=
  match edges with
  | [] => []
  | (p, l, _) :: E' => if mem p C then l :: out_labels E' C else out_labels E' C
  end.

Definition valid_next (m : matcher) : list label :=
  out_labels (n_edges (m_nfa m)) (m_closure m) ++ (if is_complete m then [LEos] else []).

(* feeding a whole sequence; None as soon as a symbol is rejected *)
Fixpoint feed_from (m : matcher) (w : list sym) : option matcher :=
  match w with
  | [] => Some m
  | s :: w' => match match_symbol m s with
               | (true, m') => feed_from m' w'
               | (false, _) => None
               end
  end.

Definition feed (mode : eps_mode) (r : re) (w : list sym) : option matcher :=
  feed_from (new_matcher mode r) w.
