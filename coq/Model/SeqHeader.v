(* Model of vc2_conformance/encoder/sequence_header.py (the enumeration of sequence
   header encodings) and of the decoder side vc2_conformance/decoder/sequence_header.py
   + pseudocode/video_parameters.py (what a header description decodes to).

   No proofs in this file (Proofs/SeqHeaderProofs.v).  Everything is computable; the
   correspondence run (tools/harness/C15.py, C16.py) evaluates these functions with
   vm_compute on the live tables and compares with the implementation.

   Representation choices
   * video parameters: a record grouped the way the bitstream groups them (frame size,
     frame rate, ... are tuples); `vp_flat` gives the 20 VideoParameters entries.
     Booleans (top_field_first, the custom_*_flag values) are the integers 0 / 1
     (Python: False == 0, True == 1; the level tables compare them with ==).
   * BASE_VIDEO_FORMAT_PARAMETERS / PRESET_* are PARAMETERS (`tables`), association
     lists in the dict's iteration order; the harness dumps the live ones.
   * a level-constraints column ("allowed combination") is an abstract decidable
     predicate `ckey -> Z -> bool` (value in column[key]); a constraint table is a
     list of columns.  (ValueSet/filter_constraint_table themselves are C17's.) *)
From Coq Require Import ZArith List Bool.
Import ListNotations.
Open Scope Z_scope.

(* ---- keys of LEVEL_CONSTRAINTS (level_constraints.py docstring / csv rows) ---- *)
Inductive ckey :=
| K_level | K_profile | K_major_version | K_minor_version
| K_base_video_format | K_picture_coding_mode
| K_custom_dimensions_flag | K_frame_width | K_frame_height
| K_custom_color_diff_format_flag | K_color_diff_format_index
| K_custom_scan_format_flag | K_source_sampling
| K_custom_frame_rate_flag | K_frame_rate_index | K_frame_rate_numer | K_frame_rate_denom
| K_custom_pixel_aspect_ratio_flag | K_pixel_aspect_ratio_index
| K_pixel_aspect_ratio_numer | K_pixel_aspect_ratio_denom
| K_custom_clean_area_flag | K_clean_width | K_clean_height | K_left_offset | K_top_offset
| K_custom_signal_range_flag | K_custom_signal_range_index
| K_luma_offset | K_luma_excursion | K_color_diff_offset | K_color_diff_excursion
| K_custom_color_spec_flag | K_color_spec_index
| K_custom_color_primaries_flag | K_color_primaries_index
| K_custom_color_matrix_flag | K_color_matrix_index
| K_custom_transfer_function_flag | K_transfer_function_index
| K_wavelet_index | K_dwt_depth
| K_asym_transform_index_flag | K_wavelet_index_ho | K_asym_transform_flag | K_dwt_depth_ho
| K_slices_x | K_slices_y | K_slices_have_same_dimensions
| K_slice_bytes_numerator | K_slice_bytes_denominator | K_slice_prefix_bytes | K_slice_size_scaler
| K_custom_quant_matrix | K_quant_matrix_values | K_qindex | K_total_slice_bytes.

(* in the row order of level_constraints.csv *)
Definition all_keys : list ckey :=
  [K_level; K_profile; K_major_version; K_minor_version; K_base_video_format; K_picture_coding_mode;
   K_custom_dimensions_flag; K_frame_width; K_frame_height;
   K_custom_color_diff_format_flag; K_color_diff_format_index;
   K_custom_scan_format_flag; K_source_sampling;
   K_custom_frame_rate_flag; K_frame_rate_index; K_frame_rate_numer; K_frame_rate_denom;
   K_custom_pixel_aspect_ratio_flag; K_pixel_aspect_ratio_index;
   K_pixel_aspect_ratio_numer; K_pixel_aspect_ratio_denom;
   K_custom_clean_area_flag; K_clean_width; K_clean_height; K_left_offset; K_top_offset;
   K_custom_signal_range_flag; K_custom_signal_range_index;
   K_luma_offset; K_luma_excursion; K_color_diff_offset; K_color_diff_excursion;
   K_custom_color_spec_flag; K_color_spec_index;
   K_custom_color_primaries_flag; K_color_primaries_index;
   K_custom_color_matrix_flag; K_color_matrix_index;
   K_custom_transfer_function_flag; K_transfer_function_index;
   K_wavelet_index; K_dwt_depth;
   K_asym_transform_index_flag; K_wavelet_index_ho; K_asym_transform_flag; K_dwt_depth_ho;
   K_slices_x; K_slices_y; K_slices_have_same_dimensions;
   K_slice_bytes_numerator; K_slice_bytes_denominator; K_slice_prefix_bytes; K_slice_size_scaler;
   K_custom_quant_matrix; K_quant_matrix_values; K_qindex; K_total_slice_bytes].

Definition column := ckey -> Z -> bool.
Definition ctable := list column.
Definition kv := (ckey * Z)%type.

(* filter_constraint_table(table, values): the columns admitting every given value.
   (A key absent from a column = a predicate that is false everywhere.  The 'catch all'
   empty column of constraint_table.py does not occur in any level table and is excluded
   by the harness generators.) *)
Definition col_admits (c : column) (values : list kv) : bool :=
  forallb (fun p => c (fst p) (snd p)) values.
Definition filter_table (t : ctable) (values : list kv) : ctable :=
  filter (fun c => col_admits c values) t.

(* ---- video parameters ---------------------------------------------------------- *)
Record vparams := mkVP {
  vp_frame_size : Z * Z;                (* frame_width, frame_height *)
  vp_cdf : Z;                           (* color_diff_format_index *)
  vp_scan : Z;                          (* source_sampling *)
  vp_tff : Z;                           (* top_field_first (0/1) *)
  vp_frame_rate : Z * Z;                (* numer, denom *)
  vp_par : Z * Z;                       (* pixel aspect ratio numer, denom *)
  vp_clean : Z * Z * Z * Z;             (* clean_width, clean_height, top_offset, left_offset
                                           (the order of the encoder's `parameters` list) *)
  vp_signal : Z * Z * Z * Z;            (* luma_offset, luma_excursion, color_diff_offset, color_diff_excursion *)
  vp_primaries : Z;
  vp_matrix : Z;
  vp_tf : Z
}.

Definition t1 (a : Z) : list Z := [a].
Definition t2 (p : Z * Z) : list Z := let '(a, b) := p in [a; b].
Definition t4 (p : Z * Z * Z * Z) : list Z := let '(a, b, c, d) := p in [a; b; c; d].
Definition l1 (l : list Z) : option Z := match l with [a] => Some a | _ => None end.
Definition l2 (l : list Z) : option (Z * Z) := match l with [a; b] => Some (a, b) | _ => None end.
Definition l4 (l : list Z) : option (Z * Z * Z * Z) :=
  match l with [a; b; c; d] => Some (a, b, c, d) | _ => None end.

(* the 20 entries in the order of the VideoParameters fixeddict *)
Definition vp_flat (v : vparams) : list Z :=
  let '(fw, fh) := vp_frame_size v in
  let '(frn, frd) := vp_frame_rate v in
  let '(pn, pd) := vp_par v in
  let '(cw, ch, topo, lefto) := vp_clean v in
  let '(lo, le, co, ce) := vp_signal v in
  [fw; fh; vp_cdf v; vp_scan v; vp_tff v; frn; frd; pn; pd; cw; ch; lefto; topo; lo; le; co; ce;
   vp_primaries v; vp_matrix v; vp_tf v].

Definition set_frame_size x v := mkVP x (vp_cdf v) (vp_scan v) (vp_tff v) (vp_frame_rate v) (vp_par v) (vp_clean v) (vp_signal v) (vp_primaries v) (vp_matrix v) (vp_tf v).
Definition set_cdf x v := mkVP (vp_frame_size v) x (vp_scan v) (vp_tff v) (vp_frame_rate v) (vp_par v) (vp_clean v) (vp_signal v) (vp_primaries v) (vp_matrix v) (vp_tf v).
Definition set_scan x v := mkVP (vp_frame_size v) (vp_cdf v) x (vp_tff v) (vp_frame_rate v) (vp_par v) (vp_clean v) (vp_signal v) (vp_primaries v) (vp_matrix v) (vp_tf v).
Definition set_frame_rate x v := mkVP (vp_frame_size v) (vp_cdf v) (vp_scan v) (vp_tff v) x (vp_par v) (vp_clean v) (vp_signal v) (vp_primaries v) (vp_matrix v) (vp_tf v).
Definition set_par x v := mkVP (vp_frame_size v) (vp_cdf v) (vp_scan v) (vp_tff v) (vp_frame_rate v) x (vp_clean v) (vp_signal v) (vp_primaries v) (vp_matrix v) (vp_tf v).
Definition set_clean x v := mkVP (vp_frame_size v) (vp_cdf v) (vp_scan v) (vp_tff v) (vp_frame_rate v) (vp_par v) x (vp_signal v) (vp_primaries v) (vp_matrix v) (vp_tf v).
Definition set_signal x v := mkVP (vp_frame_size v) (vp_cdf v) (vp_scan v) (vp_tff v) (vp_frame_rate v) (vp_par v) (vp_clean v) x (vp_primaries v) (vp_matrix v) (vp_tf v).
Definition set_primaries x v := mkVP (vp_frame_size v) (vp_cdf v) (vp_scan v) (vp_tff v) (vp_frame_rate v) (vp_par v) (vp_clean v) (vp_signal v) x (vp_matrix v) (vp_tf v).
Definition set_matrix x v := mkVP (vp_frame_size v) (vp_cdf v) (vp_scan v) (vp_tff v) (vp_frame_rate v) (vp_par v) (vp_clean v) (vp_signal v) (vp_primaries v) x (vp_tf v).
Definition set_tf x v := mkVP (vp_frame_size v) (vp_cdf v) (vp_scan v) (vp_tff v) (vp_frame_rate v) (vp_par v) (vp_clean v) (vp_signal v) (vp_primaries v) (vp_matrix v) x.

(* ---- the data tables (parameters) ------------------------------------------------- *)
Record base_row := mkBase {
  b_frame_width : Z; b_frame_height : Z; b_cdf : Z; b_scan : Z; b_tff : Z;
  b_frame_rate_index : Z; b_par_index : Z;
  b_clean_width : Z; b_clean_height : Z; b_left_offset : Z; b_top_offset : Z;
  b_signal_range_index : Z; b_color_spec_index : Z
}.

Record tables := mkTables {
  base_formats : list (Z * base_row);          (* BASE_VIDEO_FORMAT_PARAMETERS *)
  preset_frame_rates : list (Z * list Z);      (* PRESET_FRAME_RATES: index -> [numer; denom] *)
  preset_pars : list (Z * list Z);             (* PRESET_PIXEL_ASPECT_RATIOS *)
  preset_signal_ranges : list (Z * list Z);    (* PRESET_SIGNAL_RANGES: [lo; le; co; ce] *)
  preset_color_specs : list (Z * list Z)       (* PRESET_COLOR_SPECS: [primaries; matrix; tf] *)
}.

Fixpoint assoc {A} (k : Z) (l : list (Z * A)) : option A :=
  match l with
  | [] => None
  | (k', v) :: r => if k =? k' then Some v else assoc k r
  end.

(* set_source_defaults; None = the Python raises KeyError *)
Definition set_source_defaults (T : tables) (bvf : Z) : option vparams :=
  match assoc bvf (base_formats T) with
  | None => None
  | Some b =>
    match assoc (b_frame_rate_index b) (preset_frame_rates T),
          assoc (b_par_index b) (preset_pars T),
          assoc (b_signal_range_index b) (preset_signal_ranges T),
          assoc (b_color_spec_index b) (preset_color_specs T) with
    | Some [frn; frd], Some [pn; pd], Some [lo; le; co; ce], Some [p; m; t] =>
        Some (mkVP (b_frame_width b, b_frame_height b) (b_cdf b) (b_scan b) (b_tff b)
                   (frn, frd) (pn, pd)
                   (b_clean_width b, b_clean_height b, b_top_offset b, b_left_offset b)
                   (lo, le, co, ce) p m t)
    | _, _, _, _ => None
    end
  end.

(* ---- header descriptions ----------------------------------------------------------- *)
(* One custom_*_flag group of the bitstream (FrameSize, FrameRate, ...):
     GDefault        {flag: False}
     GPreset i       {flag: True, index: i}
     GExplicit vals  {flag: True, [index: 0,] <the values>}
   (ColorPrimaries/ColorMatrix/TransferFunction: {flag: True, index: v} is GExplicit [v]) *)
Inductive gopt := GDefault | GPreset (i : Z) | GExplicit (vals : list Z).
(* ColorSpec: {flag: False} | {flag: True, index: i} | {flag: True, index: 0, color_primaries, color_matrix, transfer_function} *)
Inductive csopt := CSDefault | CSPreset (i : Z) | CSCustom (p m t : gopt).

Record srcparams := mkSrc {
  sp_frame_size : gopt; sp_cdf : gopt; sp_scan : gopt; sp_frame_rate : gopt;
  sp_par : gopt; sp_clean : gopt; sp_signal : gopt; sp_color : csopt
}.

Record header := mkHeader {
  h_profile : Z; h_level : Z;            (* parse_parameters (versions are autofilled) *)
  h_base : Z;                            (* base_video_format *)
  h_src : srcparams;                     (* video_parameters: SourceParameters *)
  h_pcm : Z                              (* picture_coding_mode *)
}.

Fixpoint zlist_eqb (a b : list Z) : bool :=
  match a, b with
  | [], [] => true
  | x :: a', y :: b' => (x =? y) && zlist_eqb a' b'
  | _, _ => false
  end.

Fixpoint allowed_all (c : column) (keys : list ckey) (vals : list Z) : bool :=
  match keys, vals with
  | [], [] => true
  | k :: ks, v :: vs => c k v && allowed_all c ks vs
  | _, _ => false
  end.

(* zip_longest_repeating_final_value on a list of iterators: each round takes the next
   value of every iterator still running (keeping the last one otherwise), stops when no
   iterator produced anything.  `fuel` = 1 + the longest length (zlr_fuel_enough). *)
Definition head_or {T} (it : list T) (last : option T) : option T :=
  match it with x :: _ => Some x | [] => last end.
Fixpoint map2 {A B C} (f : A -> B -> C) (a : list A) (b : list B) : list C :=
  match a, b with
  | x :: a', y :: b' => f x y :: map2 f a' b'
  | _, _ => []
  end.
Definition running {T} (it : list T) : bool := match it with [] => false | _ => true end.
Fixpoint zlr {T} (fuel : nat) (its : list (list T)) (last : list (option T)) : list (list (option T)) :=
  match fuel with
  | O => []
  | S f =>
    if existsb running its then
      let z := map2 head_or its last in
      z :: zlr f (map (@tl T) its) z
    else []
  end.
Definition max_len {T} (ls : list (list T)) : nat :=
  fold_right (fun l m => Nat.max (length l) m) 0%nat ls.
Definition zip_longest {T} (ls : list (list T)) : list (list (option T)) :=
  zlr (S (max_len ls)) ls (map (fun _ => None) ls).

(* `for x in ...: if <some part is None>: break; yield x` *)
Fixpoint take_somes {A} (l : list (option A)) : list A :=
  match l with
  | Some x :: r => x :: take_somes r
  | _ => []
  end.

(* iter_custom_options_dicts.  base / target: the group's values in the base and the wanted
   video parameters; flag: the custom_*_flag key; keys: the constraint keys of the values;
   presets: the preset dict and the constraint key of its index, if the group has one. *)
Definition iter_custom_options (c : column) (base target : list Z) (flag : ckey) (keys : list ckey)
    (presets : option (list (Z * list Z) * ckey)) : list gopt :=
  (if zlist_eqb base target && c flag 0 then [GDefault] else [])
  ++ (match presets with
      | None => []
      | Some (ps, ik) =>
          flat_map (fun p => if zlist_eqb (snd p) target && (c flag 1 && c ik (fst p))
                             then [GPreset (fst p)] else []) ps
      end)
  ++ (if c flag 1
         && (match presets with None => true | Some (_, ik) => c ik 0 end)
         && allowed_all c keys target
      then [GExplicit target] else []).

Definition iter_color_spec_options (c : column) (T : tables) (base target : vparams) : list csopt :=
  let b3 := [vp_primaries base; vp_matrix base; vp_tf base] in
  let t3 := [vp_primaries target; vp_matrix target; vp_tf target] in
  (if zlist_eqb b3 t3 && c K_custom_color_spec_flag 0 then [CSDefault] else [])
  ++ flat_map (fun p => if negb (fst p =? 0) && zlist_eqb (snd p) t3
                           && c K_custom_color_spec_flag 1 && c K_color_spec_index (fst p)
                        then [CSPreset (fst p)] else []) (preset_color_specs T)
  ++ (match assoc 0 (preset_color_specs T) with
      | Some [p0; m0; tf0] =>
        if c K_custom_color_spec_flag 1 && c K_color_spec_index 0 then
          take_somes
            (map (fun row => match row with
                             | [Some p; Some m; Some t] => Some (CSCustom p m t)
                             | _ => None
                             end)
                 (zip_longest
                    [iter_custom_options c [p0] [vp_primaries target]
                       K_custom_color_primaries_flag [K_color_primaries_index] None;
                     iter_custom_options c [m0] [vp_matrix target]
                       K_custom_color_matrix_flag [K_color_matrix_index] None;
                     iter_custom_options c [tf0] [vp_tf target]
                       K_custom_transfer_function_flag [K_transfer_function_index] None]))
        else []
      | _ => []
      end).

Inductive item := IG (g : gopt) | IC (cs : csopt).

Definition row_to_src (row : list (option item)) : option srcparams :=
  match row with
  | [Some (IG a); Some (IG b); Some (IG c); Some (IG d); Some (IG e); Some (IG f); Some (IG g); Some (IC h)] =>
      Some (mkSrc a b c d e f g h)
  | _ => None
  end.

Definition clean_keys := [K_clean_width; K_clean_height; K_top_offset; K_left_offset].
Definition signal_keys := [K_luma_offset; K_luma_excursion; K_color_diff_offset; K_color_diff_excursion].

Definition iter_source_parameter_options (c : column) (T : tables) (base target : vparams) : list srcparams :=
  if negb (vp_tff base =? vp_tff target) then [] else
  take_somes (map row_to_src (zip_longest
    [map IG (iter_custom_options c (t2 (vp_frame_size base)) (t2 (vp_frame_size target))
               K_custom_dimensions_flag [K_frame_width; K_frame_height] None);
     map IG (iter_custom_options c (t1 (vp_cdf base)) (t1 (vp_cdf target))
               K_custom_color_diff_format_flag [K_color_diff_format_index] None);
     map IG (iter_custom_options c (t1 (vp_scan base)) (t1 (vp_scan target))
               K_custom_scan_format_flag [K_source_sampling] None);
     map IG (iter_custom_options c (t2 (vp_frame_rate base)) (t2 (vp_frame_rate target))
               K_custom_frame_rate_flag [K_frame_rate_numer; K_frame_rate_denom]
               (Some (preset_frame_rates T, K_frame_rate_index)));
     map IG (iter_custom_options c (t2 (vp_par base)) (t2 (vp_par target))
               K_custom_pixel_aspect_ratio_flag [K_pixel_aspect_ratio_numer; K_pixel_aspect_ratio_denom]
               (Some (preset_pars T, K_pixel_aspect_ratio_index)));
     map IG (iter_custom_options c (t4 (vp_clean base)) (t4 (vp_clean target))
               K_custom_clean_area_flag clean_keys None);
     map IG (iter_custom_options c (t4 (vp_signal base)) (t4 (vp_signal target))
               K_custom_signal_range_flag signal_keys
               (Some (preset_signal_ranges T, K_custom_signal_range_index)));
     map IC (iter_color_spec_options c T base target)])).

(* ---- ranking of base video formats --------------------------------------------------- *)
Definition dz (a b : Z) : Z := if a =? b then 0 else 1.
Fixpoint count_diff (a b : list Z) : Z :=
  match a, b with
  | x :: a', y :: b' => dz x y + count_diff a' b'
  | _, _ => 0
  end.
(* count_video_parameter_differences (both dictionaries always have all 20 keys) *)
Definition count_video_parameter_differences (a b : vparams) : Z := count_diff (vp_flat a) (vp_flat b).

(* sorted(..., key=...) is stable: insertion after the last element with key <= *)
Fixpoint insert_by (k : Z) (x : Z) (l : list (Z * Z)) : list (Z * Z) :=
  match l with
  | [] => [(k, x)]
  | (k', y) :: r => if k <? k' then (k, x) :: l else (k', y) :: insert_by k x r
  end.
Definition stable_sort_by (l : list (Z * Z)) : list (Z * Z) :=
  fold_left (fun acc p => insert_by (fst p) (snd p) acc) l [].

(* rank_base_video_format_similarity(video_parameters, candidates) *)
Definition rank_base_video_format_similarity (T : tables) (target : vparams) (cands : list Z) : list Z :=
  map snd (stable_sort_by
    (flat_map (fun i => match assoc i (base_formats T), set_source_defaults T i with
                        | Some b, Some d =>
                            if b_tff b =? vp_tff target
                            then [(count_video_parameter_differences d target, i)] else []
                        | _, _ => []
                        end) cands)).
(* True when the Python raises no KeyError *)
Definition rank_dom (T : tables) (cands : list Z) : bool :=
  forallb (fun i => match set_source_defaults T i with Some _ => true | None => false end) cands.

(* ---- iter_sequence_headers ------------------------------------------------------------ *)
(* what the encoder reads of the codec features: level, profile, picture coding mode, the
   remaining `codec_features_to_trivial_level_constraints` entries, the target format *)
Record features := mkFeatures {
  cf_level : Z; cf_profile : Z; cf_pcm : Z;
  cf_extra : list kv;
  cf_video : vparams
}.
Definition trivial_level_constraints (cf : features) : list kv :=
  (K_level, cf_level cf) :: (K_profile, cf_profile cf) :: (K_picture_coding_mode, cf_pcm cf) :: cf_extra cf.

(* cands = list(allowed_values_for(LEVEL_CONSTRAINTS, "base_video_format", constrained_values,
   the set of all BaseVideoFormats).iter_values()) -- an input here: the headers produced for a
   candidate are filtered by the table again, whatever the candidate list was. *)
Definition iter_sequence_headers (T : tables) (tbl : ctable) (cf : features) (cands : list Z) : list header :=
  flat_map (fun bvf =>
    match set_source_defaults T bvf with
    | None => []
    | Some base =>
      flat_map (fun c =>
        map (fun sp => mkHeader (cf_profile cf) (cf_level cf) bvf sp (cf_pcm cf))
            (iter_source_parameter_options c T base (cf_video cf)))
        (filter_table tbl ((K_base_video_format, bvf) :: trivial_level_constraints cf))
    end) (rank_base_video_format_similarity T (cf_video cf) cands).

(* make_sequence_header: the first one, or IncompatibleLevelAndVideoFormatError *)
Definition make_sequence_header (T : tables) (tbl : ctable) (cf : features) (cands : list Z) : option header :=
  match iter_sequence_headers T tbl cf cands with
  | h :: _ => Some h
  | [] => None
  end.

(* ---- the decoder side: source_parameters on a header description ----------------------- *)
(* None = the description is not one the bitstream can carry (index 0 without values, a
   preset index outside the table: the decoder's assert_in_enum) *)
Definition decode_group (presets : option (list (Z * list Z))) (g : gopt) (cur : list Z) : option (list Z) :=
  match g with
  | GDefault => Some cur
  | GPreset i =>
      match presets with
      | None => None
      | Some ps => if i =? 0 then None else assoc i ps
      end
  | GExplicit v => Some v
  end.

Definition obind {A B} (o : option A) (f : A -> option B) : option B :=
  match o with Some x => f x | None => None end.

Definition decode_color (T : tables) (cs : csopt) (v : vparams) : option vparams :=
  match cs with
  | CSDefault => Some v
  | CSPreset i =>
      if i =? 0 then None else
      match assoc i (preset_color_specs T) with
      | Some [p; m; t] => Some (set_tf t (set_matrix m (set_primaries p v)))
      | _ => None
      end
  | CSCustom gp gm gt =>
      match assoc 0 (preset_color_specs T) with
      | Some [p0; m0; tf0] =>
          obind (obind (decode_group None gp [p0]) l1) (fun p =>
          obind (obind (decode_group None gm [m0]) l1) (fun m =>
          obind (obind (decode_group None gt [tf0]) l1) (fun t =>
          Some (set_tf t (set_matrix m (set_primaries p v))))))
      | _ => None
      end
  end.

Definition decode_source_parameters (T : tables) (bvf : Z) (sp : srcparams) : option vparams :=
  obind (set_source_defaults T bvf) (fun v0 =>
  obind (obind (decode_group None (sp_frame_size sp) (t2 (vp_frame_size v0))) l2) (fun x =>
  let v1 := set_frame_size x v0 in
  obind (obind (decode_group None (sp_cdf sp) (t1 (vp_cdf v1))) l1) (fun x =>
  let v2 := set_cdf x v1 in
  obind (obind (decode_group None (sp_scan sp) (t1 (vp_scan v2))) l1) (fun x =>
  let v3 := set_scan x v2 in
  obind (obind (decode_group (Some (preset_frame_rates T)) (sp_frame_rate sp) (t2 (vp_frame_rate v3))) l2) (fun x =>
  let v4 := set_frame_rate x v3 in
  obind (obind (decode_group (Some (preset_pars T)) (sp_par sp) (t2 (vp_par v4))) l2) (fun x =>
  let v5 := set_par x v4 in
  obind (obind (decode_group None (sp_clean sp) (t4 (vp_clean v5))) l4) (fun x =>
  let v6 := set_clean x v5 in
  obind (obind (decode_group (Some (preset_signal_ranges T)) (sp_signal sp) (t4 (vp_signal v6))) l4) (fun x =>
  let v7 := set_signal x v6 in
  decode_color T (sp_color sp) v7)))))))).

(* sequence_header(state): (video_parameters, picture_coding_mode) *)
Definition decode_header (T : tables) (h : header) : option (vparams * Z) :=
  obind (decode_source_parameters T (h_base h) (h_src h)) (fun v => Some (v, h_pcm h)).

(* ---- the (key, value) pairs the decoder hands to assert_level_constraint while parsing
        this header, in parse order (major_version / minor_version, which autofill chooses,
        are not part of the description) ------------------------------------------------- *)
Definition coded_group (flag : ckey) (ikey : option ckey) (keys : list ckey) (g : gopt) : list kv :=
  match g with
  | GDefault => [(flag, 0)]
  | GPreset i => (flag, 1) :: match ikey with Some ik => [(ik, i)] | None => [] end
  | GExplicit vals =>
      (flag, 1) :: (match ikey with Some ik => [(ik, 0)] | None => [] end) ++ combine keys vals
  end.
(* decoder order of the clean area: clean_width, clean_height, left_offset, top_offset *)
Definition coded_clean (g : gopt) : list kv :=
  match g with
  | GExplicit [cw; ch; topo; lefto] =>
      [(K_custom_clean_area_flag, 1); (K_clean_width, cw); (K_clean_height, ch);
       (K_left_offset, lefto); (K_top_offset, topo)]
  | _ => coded_group K_custom_clean_area_flag None clean_keys g
  end.
Definition coded_color (cs : csopt) : list kv :=
  match cs with
  | CSDefault => [(K_custom_color_spec_flag, 0)]
  | CSPreset i => [(K_custom_color_spec_flag, 1); (K_color_spec_index, i)]
  | CSCustom p m t =>
      [(K_custom_color_spec_flag, 1); (K_color_spec_index, 0)]
      ++ coded_group K_custom_color_primaries_flag None [K_color_primaries_index] p
      ++ coded_group K_custom_color_matrix_flag None [K_color_matrix_index] m
      ++ coded_group K_custom_transfer_function_flag None [K_transfer_function_index] t
  end.
Definition coded_src (sp : srcparams) : list kv :=
  coded_group K_custom_dimensions_flag None [K_frame_width; K_frame_height] (sp_frame_size sp)
  ++ coded_group K_custom_color_diff_format_flag None [K_color_diff_format_index] (sp_cdf sp)
  ++ coded_group K_custom_scan_format_flag None [K_source_sampling] (sp_scan sp)
  ++ coded_group K_custom_frame_rate_flag (Some K_frame_rate_index)
       [K_frame_rate_numer; K_frame_rate_denom] (sp_frame_rate sp)
  ++ coded_group K_custom_pixel_aspect_ratio_flag (Some K_pixel_aspect_ratio_index)
       [K_pixel_aspect_ratio_numer; K_pixel_aspect_ratio_denom] (sp_par sp)
  ++ coded_clean (sp_clean sp)
  ++ coded_group K_custom_signal_range_flag (Some K_custom_signal_range_index) signal_keys (sp_signal sp)
  ++ coded_color (sp_color sp).
Definition coded_keys (h : header) : list kv :=
  [(K_level, h_level h); (K_profile, h_profile h); (K_base_video_format, h_base h)]
  ++ coded_src (h_src h) ++ [(K_picture_coding_mode, h_pcm h)].

(* decidable equality on keys (generated; used by concrete columns and the C16 model) *)
Scheme Equality for ckey.
