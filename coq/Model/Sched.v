(* Schedules of file-writing commands (property C24).
   A worker command is a finite sequence of atomic writes (path, content).  An execution is any
   list of writes tagged with the command that performs them; it is an execution OF a family of
   commands when, for every command id, the writes with that tag are exactly that command's
   sequence, in order (this covers every serial order and every concurrent interleaving of the
   atomic writes).  The file system is a function path -> content; a write overwrites. *)
From Coq Require Import ZArith List Bool.
Import ListNotations.
Open Scope Z_scope.

Record write := mkw { w_cmd : Z; w_path : Z; w_content : Z }.

Definition fs := Z -> option Z.
Definition apply_write (f : fs) (w : write) : fs :=
  fun p => if p =? w_path w then Some (w_content w) else f p.
Definition run (l : list write) (f : fs) : fs := fold_left apply_write l f.

(* the writes of command i within an execution, in order *)
Definition of_cmd (i : Z) (l : list write) : list write := filter (fun w => w_cmd w =? i) l.

(* no two different commands write the same path *)
Definition path_disjoint (l : list write) : Prop :=
  forall a b, In a l -> In b l -> w_path a = w_path b -> w_cmd a = w_cmd b.

(* content of the last write to p, if any *)
Fixpoint last_write (p : Z) (l : list write) : option Z :=
  match l with
  | [] => None
  | w :: r => match last_write p r with
              | Some c => Some c
              | None => if p =? w_path w then Some (w_content w) else None
              end
  end.
