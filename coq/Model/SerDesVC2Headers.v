(* More descriptions of bitstream/vc2.py as [prog] terms of Model/SerDes.v (header part of property C08):
   (12.2) picture_header, (12.4.1) transform_parameters with (12.4.4.1) extended_transform_parameters,
   (12.4.5.2) slice_parameters, (12.4.5.3) quant_matrix, and (10.5.1) parse_info.
   Target / context-type numbers are shared with tools/harness/C08_headers.py (which runs these programs against
   the real functions under a real Deserialiser).  What the Python functions take from `state` and do not read
   from the stream are parameters: major_version, is_ld(state) / is_hq(state) (from parse_code), and the byte
   offset recorded by parse_info.  NO proofs here.

   targets: 200 picture_number | 201 wavelet_index 202 dwt_depth 203 extended_transform_parameters
   204 asym_transform_index_flag 205 wavelet_index_ho 206 asym_transform_flag 207 dwt_depth_ho
   208 slice_parameters 209 slices_x 210 slices_y 211 slice_bytes_numerator 212 slice_bytes_denominator
   213 slice_prefix_bytes 214 slice_size_scaler 215 quant_matrix(context) 216 custom_quant_matrix
   217 quant_matrix(list) | 220 padding 221 _offset 222 parse_info_prefix 223 parse_code 224 next_parse_offset
   225 previous_parse_offset
   context types: 40 PictureHeader 41 TransformParameters 42 ExtendedTransformParameters 43 SliceParameters
   44 QuantMatrix 45 ParseInfo *)
From Coq Require Import ZArith List Bool.
From VC2 Require Import Model.SerDes Model.SerDesVC2.
Import ListNotations.
Open Scope Z_scope.

(* (12.2) state["picture_number"] = serdes.uint_lit("picture_number", 4) *)
Definition picture_header_prog : prog unit :=
  Op (OSetType 40) (fun _ => Op (OUintLit 200 4) (fun _ => Ret tt)).

(* (12.4.5.2) slice_parameters *)
Definition slice_parameters_body (ld hq : bool) : prog unit :=
  pseqs [puint 209; puint 210;
         (if ld then pseqs [puint 211; puint 212] else Ret tt);
         (if hq then pseqs [puint 213; puint 214] else Ret tt)].

(* (12.4.5.3) quant_matrix: the number of serdes.uint("quant_matrix") calls of the three loops:
   one for level 0, range(1, dwt_depth_ho + 1), three per level of range(dwt_depth_ho + 1, dwt_depth_ho + dwt_depth + 1) *)
Definition quant_matrix_count (dwt_depth dwt_depth_ho : Z) : nat :=
  (1 + Z.to_nat dwt_depth_ho + 3 * Z.to_nat dwt_depth)%nat.
Definition quant_matrix_body (dwt_depth dwt_depth_ho : Z) : prog unit :=
  pflag 216 (pseq (pop (ODeclList 217)) (prep (quant_matrix_count dwt_depth dwt_depth_ho) (puint 217))).

(* what follows the (optional) extended transform parameters *)
Definition transform_parameters_rest (ld hq : bool) (dwt_depth dwt_depth_ho : Z) : prog unit :=
  pseq (psub 208 43 (slice_parameters_body ld hq)) (psub 215 44 (quant_matrix_body dwt_depth dwt_depth_ho)).

(* (12.4.1) transform_parameters; (12.4.4.1) extended_transform_parameters when state["major_version"] >= 3.
   dwt_depth_ho = 0 unless the extended parameters carry it *)
Definition transform_parameters_prog (major_version : Z) (ld hq : bool) : prog unit :=
  Op (OSetType 41) (fun _ =>
  Op (OUint 201) (fun _ =>
  Op (OUint 202) (fun d =>
  if 3 <=? major_version then
    Op (OSubEnter 203) (fun _ => Op (OSetType 42) (fun _ =>
    Op (OBool 204) (fun f1 =>
    pseq (if val_bool f1 then puint 205 else Ret tt)
    (Op (OBool 206) (fun f2 =>
     if val_bool f2 then
       Op (OUint 207) (fun dh => Op OSubLeave (fun _ => transform_parameters_rest ld hq (val_int d) (val_int dh)))
     else Op OSubLeave (fun _ => transform_parameters_rest ld hq (val_int d) 0))))))
  else transform_parameters_rest ld hq (val_int d) 0))).

(* (10.5.1) parse_info; [offset] = serdes.io.tell()[0] after the alignment *)
Definition parse_info_prog (offset : Z) : prog unit :=
  Op (OSetType 45) (fun _ => Op (OByteAlign 220) (fun _ => Op (OComputed 221 (VI offset)) (fun _ =>
  Op (OUintLit 222 4) (fun _ => Op (OUintLit 223 1) (fun _ =>
  Op (OUintLit 224 4) (fun _ => Op (OUintLit 225 4) (fun _ => Ret tt))))))).

(* parse_info not at the start of the stream (correspondence run only): k bits are read first into a plain
   dictionary, parse_info runs in a subcontext   d.nbits("pre", k); with d.subcontext("pi"): parse_info(d, state) *)
Definition parse_info_after (k offset : Z) : prog unit :=
  Op (ONBits 230 k) (fun _ => Op (OSubEnter 231) (fun _ => pseq (parse_info_prog offset) (Op OSubLeave (fun _ => Ret tt)))).
