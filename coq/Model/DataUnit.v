(* Model/DataUnit.v -- a whole picture data unit of the validator over bits (C02 stage 2, composition):
   picture_parse = byte_align; picture_header; byte_align; transform_parameters; byte_align  (Model/Headers.v)
   followed by transform_data = every slice in raster order                                    (Model/Slices.v, C08).

   The slice readers of Model/Slices.v take the slice parameters as a record; `sparams_of` reads them from the
   validator state left by transform_parameters.  Each slice gets the canonical fuel of ITS input
   (Slices.fuel_for), which is sufficient by C08_fuel_sufficient.

   NOT in Model/Slices.v, hence not here (see Props/C02.v): the two level assertions inside the slice readers
   (qindex, total_slice_bytes: ConformanceErrors), KeyError on state["quant_matrix"][level][orient] (the matrix is
   a total function there), IndexError on the coefficient arrays (slice geometry, C13), dc_prediction, the
   inverse wavelet transform and picture_decode.  No proofs in this file. *)
From Coq Require Import ZArith List Bool.
From VC2 Require Import Base.PyZ Gen.StateRec Gen.SliceSizes Gen.ParseCodes.
From VC2 Require Model.Slices.
From VC2 Require Import Model.Headers.
Import ListNotations.
Open Scope Z_scope.

Definition orient_id (o : Slices.orient) : Z := Slices.orient_code o.

Definition qm_get (q : qmatrix) (level : Z) (o : Slices.orient) : Z :=
  match find (fun e => (fst (fst e) =? level) && (snd (fst e) =? orient_id o)) q with
  | Some e => snd e
  | None => 0
  end.

Definition sparams_of (s : St) : Slices.sparams :=
  let g k := match s_st s k with Some v => v | None => 0 end in
  Slices.mk_sparams (pystate_of (s_st s)) (g S_slice_prefix_bytes) (g S_slice_size_scaler)
                    (qm_get (match s_qm s with Some q => q | None => [] end)).

(* outcome of the slice model as an outcome of the validator *)
Definition of_slices {A} (r : Slices.res A) : hres A :=
  match r with
  | Slices.Ok a => HOk a
  | Slices.Err Slices.Eof => HEof
  | Slices.Err Slices.BadYLen => HReject E_InvalidSliceYLength
  | Slices.Err Slices.OutOfFuel => HOutOfFuel
  end.

(* for sy in range(slices_y): for sx in range(slices_x): slice(state, sx, sy) *)
Fixpoint du_slices (p : Slices.sparams) (coords : list (Z * Z)) (bs : list bool)
  : Slices.res (list Slices.d_slice_out * list bool) :=
  match coords with
  | [] => Slices.Ok ([], bs)
  | c :: rest =>
      match Slices.d_slice (Slices.fuel_for bs) p (fst c) (snd c) bs with
      | Slices.Ok o =>
          match du_slices p rest (Slices.d_rest o) with
          | Slices.Ok (os, bs') => Slices.Ok (o :: os, bs')
          | Slices.Err e => Slices.Err e
          end
      | Slices.Err e => Slices.Err e
      end
  end.

(* (13.5.2) transform_data, reading part *)
Definition transform_data_slices : M (list Slices.d_slice_out) := fun s =>
  let p := sparams_of s in
  let bs := r_bits (s_rd s) in
  match of_slices (du_slices p (Slices.slice_coords (Slices.sp_st p)) bs) with
  | HOk (os, bs') => HOk (os, set_rd s (mkRd bs' (r_pos (s_rd s) + Z.of_nat (length bs) - Z.of_nat (length bs'))))
  | HReject e => HReject e | HEof => HEof | HCrash c => HCrash c | HOutOfFuel => HOutOfFuel
  end.

(* (12.1) picture_parse: headers, then the slices *)
Definition picture_data_unit (T : tables) (lvl : hist -> Z -> Z -> bool) (fuel : nat) : M (list Slices.d_slice_out) :=
  bind (picture_parse_header T lvl fuel) (fun _ => transform_data_slices).
