(* Model of the 2-D wavelet transforms:
     picture_decoding.py : h_synthesis, vh_synthesis, idwt, idwt_pad_removal, filter_bit_shift
     picture_encoding.py : h_analysis, vh_analysis, dwt, dwt_pad_addition
     arrays.py           : width, height, row, column, delete_rows_after, delete_columns_after

   A 2-D array is a [list (list Z)] (list of rows, as in Python).
   * rows are filtered independently (`for y: oned_xxx(row(a, y))`)      -> [map]
   * columns are filtered one after the other IN PLACE through the `column`
     view (`for x: oned_xxx(column(a, x))`): the model extracts column x of the
     current array, filters it, writes it back, then goes to x+1            -> [cols]
   * bit shift: the shift of the HORIZONTAL filter (filter_bit_shift(state) reads
     state["wavelet_index_ho"]) is used for vh_* as well as h_*
   * analysis: shift up, rows (ho filter), columns (v filter), de-interleave
     synthesis: interleave, columns (v filter), rows (ho filter), rounded shift down
   * coefficient data {level: {orient: array}} becomes the record [coeffs]:
       c_dc = level 0 ("LL" or "L"), c_ho = [H of level 1; ..; H of level dh],
       c_vh = [(HL,LH,HH) of level dh+1; ..; of level dh+d]
   * padding to subband_width/height(state, dwt_depth+dwt_depth_ho+1, c) -- the
     GENERATED Gen.SliceSizes functions are called, exactly like the Python.

   Faithful for well-shaped inputs (rectangular arrays with at least one row,
   sub-bands of equal shape, depths >= 0): where Python would raise IndexError
   on ragged input the total model truncates. *)
From Coq Require Import ZArith List Bool.
From VC2 Require Import Base.PyZ Gen.StateRec Gen.SliceSizes Model.Lifting.
Import ListNotations.
Open Scope Z_scope.

Definition arr := list (list Z).

Definition width (a : arr) : nat := length (hd [] a).
Definition height (a : arr) : nat := length a.

Fixpoint map2 {A B C} (f : A -> B -> C) (l : list A) (m : list B) : list C :=
  match l, m with
  | a :: l', b :: m' => f a b :: map2 f l' m'
  | _, _ => []
  end.

(* shape predicates used by the theorem statements: h rows, each of w samples *)
Definition rect (a : arr) (h w : nat) : Prop := length a = h /\ Forall (fun r => length r = w) a.
Definition has_shape (a : arr) (H W : Z) : Prop :=
  Z.of_nat (length a) = H /\ Forall (fun r => Z.of_nat (length r) = W) a.
Definition vh3_shape (t : arr * arr * arr) (H W : Z) : Prop :=
  let '(a, b, c) := t in has_shape a H W /\ has_shape b H W /\ has_shape c H W.

(* ---- column view --------------------------------------------------------- *)
Definition get_col (a : arr) (x : nat) : list Z := map (fun r => nth x r 0) a.
Definition set_col (a : arr) (x : nat) (c : list Z) : arr := map2 (fun r v => upd r x v) a c.
(* for x in range(width(a)): f(column(a, x)) *)
Definition cols (f : list Z -> list Z) (a : arr) : arr :=
  fold_left (fun a x => set_col a x (f (get_col a x))) (seq 0 (width a)) a.
(* for y in range(height(a)): f(row(a, y)) *)
Definition rows (f : list Z -> list Z) (a : arr) : arr := map f a.

(* ---- interleaving ---------------------------------------------------------- *)
(* out[x] = in[2x] / in[2x+1]  for x in range(len // 2) *)
Fixpoint evens {A} (l : list A) : list A :=
  match l with a :: _ :: r => a :: evens r | _ => [] end.
Fixpoint odds {A} (l : list A) : list A :=
  match l with _ :: b :: r => b :: odds r | _ => [] end.
(* out[2x] = l[x] ; out[2x+1] = h[x] *)
Fixpoint interleave {A} (l h : list A) : list A :=
  match l, h with a :: l', b :: h' => a :: b :: interleave l' h' | _, _ => [] end.

(* ---- bit shift ------------------------------------------------------------- *)
(* if shift > 0: a[y][x] = a[y][x] << shift *)
Definition shift_up (s : Z) (a : arr) : arr :=
  if s >? 0 then map (map (fun v => py_shl v s)) a else a.
(* if shift > 0: a[y][x] = (a[y][x] + (1 << (shift - 1))) >> shift *)
Definition shift_down (s : Z) (a : arr) : arr :=
  if s >? 0 then map (map (fun v => py_shr (v + py_shl 1 (s - 1)) s)) a else a.

(* ---- single level ---------------------------------------------------------- *)
Definition h_analysis (fh : filter) (data : arr) : arr * arr :=
  let data := shift_up (f_shift fh) data in
  let data := rows (oned_analysis (f_stages fh)) data in
  (map evens data, map odds data).

Definition vh_analysis (fv fh : filter) (data : arr) : arr * arr * arr * arr :=
  let data := shift_up (f_shift fh) data in
  let data := rows (oned_analysis (f_stages fh)) data in
  let data := cols (oned_analysis (f_stages fv)) data in
  (map evens (evens data), map odds (evens data), map evens (odds data), map odds (odds data)).

Definition h_synthesis (fh : filter) (L H : arr) : arr :=
  let synth := map2 interleave L H in
  let synth := rows (oned_synthesis (f_stages fh)) synth in
  shift_down (f_shift fh) synth.

Definition vh_synthesis (fv fh : filter) (LL HL LH HH : arr) : arr :=
  let synth := interleave (map2 interleave LL HL) (map2 interleave LH HH) in
  let synth := cols (oned_synthesis (f_stages fv)) synth in
  let synth := rows (oned_synthesis (f_stages fh)) synth in
  shift_down (f_shift fh) synth.

(* ---- multi level ----------------------------------------------------------- *)
Record coeffs := mk_coeffs { c_dc : arr; c_ho : list arr; c_vh : list (arr * arr * arr) }.

(* for n in reversed(range(dh+1, dh+d+1)): vh_analysis; levels returned lowest first *)
Fixpoint dwt_vh (fv fh : filter) (d : nat) (pic : arr) : arr * list (arr * arr * arr) :=
  match d with
  | O => (pic, [])
  | S d' =>
      let '(LL, HL, LH, HH) := vh_analysis fv fh pic in
      let '(dc, lv) := dwt_vh fv fh d' LL in
      (dc, lv ++ [(HL, LH, HH)])
  end.
(* for n in reversed(range(1, dh+1)): h_analysis *)
Fixpoint dwt_ho (fh : filter) (dh : nat) (pic : arr) : arr * list arr :=
  match dh with
  | O => (pic, [])
  | S dh' =>
      let '(L, H) := h_analysis fh pic in
      let '(dc, lv) := dwt_ho fh dh' L in
      (dc, lv ++ [H])
  end.

Definition dwt (fv fh : filter) (d dh : Z) (pic : arr) : coeffs :=
  let '(dc1, vh) := dwt_vh fv fh (Z.to_nat d) pic in
  let '(dc, ho) := dwt_ho fh (Z.to_nat dh) dc1 in
  mk_coeffs dc ho vh.

Definition idwt (fv fh : filter) (d dh : Z) (cf : coeffs) : arr :=
  let dc := fold_left (fun dc H => h_synthesis fh dc H) (firstn (Z.to_nat dh) (c_ho cf)) (c_dc cf) in
  fold_left (fun dc '(HL, LH, HH) => vh_synthesis fv fh dc HL LH HH) (firstn (Z.to_nat d) (c_vh cf)) dc.

(* ---- padding ------------------------------------------------------------------ *)
Definition comp_width (st : pystate) (c : pystr) : Z :=
  if pystr_eqb c Str_Y then st_luma_width st else st_color_diff_width st.
Definition comp_height (st : pystate) (c : pystr) : Z :=
  if pystr_eqb c Str_Y then st_luma_height st else st_color_diff_height st.

(* value = row[-1] ; while len(row) < width: row.append(value) *)
Definition pad_row (w : nat) (r : list Z) : list Z := r ++ repeat (last r 0) (w - length r).
(* while len(pic) < height: pic.append(pic[-1][:]) *)
Definition pad_rows (h : nat) (pic : arr) : arr := pic ++ repeat (last pic []) (h - length pic).

Definition dwt_pad_addition (st : pystate) (c : pystr) (pic : arr) : arr :=
  let top_level := st_dwt_depth st + st_dwt_depth_ho st + 1 in
  let w := subband_width st top_level c in
  let h := subband_height st top_level c in
  pad_rows (Z.to_nat h) (map (pad_row (Z.to_nat w)) pic).

(* delete_rows_after(pic, height) ; delete_columns_after(pic, width) *)
Definition idwt_pad_removal (st : pystate) (c : pystr) (pic : arr) : arr :=
  map (firstn (Z.to_nat (comp_width st c))) (firstn (Z.to_nat (comp_height st c)) pic).

(* the observation of the property: pad, forward transform, inverse transform, unpad *)
Definition round_trip (fv fh : filter) (st : pystate) (c : pystr) (pic : arr) : arr :=
  let d := st_dwt_depth st in
  let dh := st_dwt_depth_ho st in
  idwt_pad_removal st c (idwt fv fh d dh (dwt fv fh d dh (dwt_pad_addition st c pic))).
