(* Model/Headers.v -- the bitstream validator INSIDE a data unit, over actual bits (C02 stage 2).

   Code modelled (vc2_conformance/decoder, statement by statement, every 'not in spec' check in the
   order of the code, so that the CLASS of the first error is modelled):
     io.py                read_bit read_bool read_nbits read_uint_lit read_uint read_sint byte_align,
                          record_bitstream_start/finish (alignment assertion, recorded bytes)
     stream.py            parse_info
     sequence_header.py   sequence_header parse_parameters source_parameters frame_size
                          color_diff_sampling_format scan_format frame_rate pixel_aspect_ratio clean_area
                          signal_range color_spec color_primaries color_matrix transfer_function
     pseudocode/video_parameters.py  set_source_defaults set_coding_parameters picture_dimensions
                          video_depth preset_*
     picture_syntax.py    picture_header transform_parameters extended_transform_parameters
                          slice_parameters quant_matrix set_quant_matrix
     fragment_syntax.py   fragment_header
     assertions.py        assert_in_enum assert_level_constraint log_version_lower_bound
                          assert_picture_number_incremented_as_expected

   Bits are a `list bool` (the not yet consumed part of the stream) together with the number of bits
   consumed so far (`r_pos`; gives tell() and byte alignment).  Reading from the empty list is
   UnexpectedEndOfStream = `HEof`.

   The Python `state` dictionary is a finite map  key id -> option Z  (`None` = the key is ABSENT):
   `state["k"]` of an absent key is `HCrash X_KeyError`, `"k" in state` / `state.get` test presence.
   The non-integer entries (_level_constrained_values, quant_matrix, _last_sequence_header_bytes) and
   the `video_parameters` dictionary under construction are separate fields of `St`.

   External data are PARAMETERS (`tables`; the harness dumps the live vc2_data_tables objects): the
   enums (value lists), BASE_VIDEO_FORMAT_PARAMETERS, PRESET_*, PROFILES, QUANTISATION_MATRICES,
   LEVEL_SEQUENCE_RESTRICTIONS (key set + "the level's pattern accepts a leading sequence_header").
   EVERY table subscript is an explicit lookup: absent key = `HCrash X_KeyError`.  The code checks a
   value against an ENUM and then subscripts a DIFFERENT object; that this never fails is a property
   of the tables (`tables_ok`, decidable, evaluated on the live tables on every run).

   The level-constraint table (assert_level_constraint -> allowed_values_for(LEVEL_CONSTRAINTS, key,
   _level_constrained_values)) is an abstract decidable predicate `lvl` (Section variable) of the
   history of accepted (key, value) pairs, the key and the value.  The two pattern matchers touched by
   parse_info are abstract acceptance predicates.

   Data-dependent loops (read_uint, the custom quantisation matrix loops) run on explicit fuel;
   `S (length bits)` is proved sufficient in Proofs/HeadersProofs.v.  Arithmetic shared with the slice
   geometry comes from coq/Gen (regenerated from the Python source on every run): intlog2,
   slices_have_same_dimensions (+ its `_dom`: no ZeroDivisionError / negative shift), is_ld, is_hq,
   the *_version_implication functions.

   No proofs in this file. *)
From Coq Require Import ZArith List Bool.
From VC2 Require Import Base.PyZ Gen.StateRec Gen.VC2Math Gen.SliceSizes Gen.ParseCodes Gen.Version.
Import ListNotations.
Open Scope Z_scope.

(* ------------------------------------------------------------------ outcomes *)
(* decoder/exceptions.py: the ConformanceError subclasses the modelled functions can raise
   (UnexpectedEndOfStream is `HEof`).  Constructor = "E_" ++ Python class name. *)
Inductive cerr :=
| E_MajorVersionTooLow | E_MinorVersionNotZero | E_BadProfile | E_ProfileNotSupportedByVersion | E_BadLevel
| E_ValueNotAllowedInLevel
| E_BadBaseVideoFormat | E_ZeroPixelFrameSize | E_BadColorDifferenceSamplingFormat | E_BadSourceSamplingMode
| E_BadPresetFrameRateIndex | E_PresetFrameRateNotSupportedByVersion
| E_FrameRateHasZeroDenominator | E_FrameRateHasZeroNumerator
| E_PixelAspectRatioContainsZeros | E_BadPresetPixelAspectRatio | E_CleanAreaOutOfRange
| E_BadCustomSignalExcursion | E_BadPresetSignalRange | E_PresetSignalRangeNotSupportedByVersion
| E_BadPresetColorSpec | E_PresetColorSpecNotSupportedByVersion
| E_BadPresetColorPrimaries | E_PresetColorPrimariesNotSupportedByVersion
| E_BadPresetColorMatrix | E_PresetColorMatrixNotSupportedByVersion
| E_BadPresetTransferFunction | E_PresetTransferFunctionNotSupportedByVersion
| E_BadPictureCodingMode | E_PictureDimensionsNotMultipleOfFrameDimensions
| E_SequenceHeaderChangedMidSequence
| E_NonConsecutivePictureNumbers | E_EarliestFieldHasOddPictureNumber
| E_BadWaveletIndex | E_BadHOWaveletIndex | E_ZeroSlicesInCodedPicture
| E_SliceBytesHasZeroDenominator | E_SliceBytesIsLessThanOne | E_SliceSizeScalerIsZero
| E_QuantisationMatrixValueNotAllowedInLevel | E_NoQuantisationMatrixAvailable
| E_FragmentedPictureRestarted | E_PictureNumberChangedMidFragmentedPicture
| E_TooManySlicesInFragmentedPicture | E_FragmentSlicesNotContiguous
| E_BadParseInfoPrefix | E_BadParseCode | E_InconsistentNextParseOffset | E_MissingNextParseOffset
| E_InvalidNextParseOffset | E_NonZeroNextParseOffsetAtEndOfSequence | E_InconsistentPreviousParseOffset
| E_NonZeroPreviousParseOffsetAtStartOfSequence | E_GenericInvalidSequence | E_LevelInvalidSequence
| E_ParseCodeNotAllowedInProfile | E_ParseCodeNotSupportedByVersion
| E_InvalidSliceYLength
| E_Other.       (* any other ConformanceError class (never produced by the model) *)

(* Python exceptions which are NOT conformance errors *)
Inductive pyexc := X_KeyError | X_ZeroDivisionError | X_AssertionError | X_TypeError | X_ValueError.

Inductive hres (A : Type) : Type :=
| HOk (a : A) | HReject (e : cerr) | HEof | HCrash (c : pyexc) | HOutOfFuel.
Arguments HOk {A} a. Arguments HReject {A} e. Arguments HEof {A}. Arguments HCrash {A} c.
Arguments HOutOfFuel {A}.

(* ------------------------------------------------------------------ the bit reader (decoder/io.py) *)
Record rd := mkRd { r_bits : list bool; r_pos : Z }.

(* (A.2.3) read_bit: current_byte is None -> UnexpectedEndOfStream *)
Definition read_bit (r : rd) : hres (bool * rd) :=
  match r_bits r with
  | [] => HEof
  | b :: t => HOk (b, mkRd t (r_pos r + 1))
  end.

(* (A.3.3) read_nbits: val <<= 1; val += read_bit.  `n` comes from a literal in all header uses *)
Fixpoint read_nbits_loop (n : nat) (val : Z) (r : rd) : hres (Z * rd) :=
  match n with
  | O => HOk (val, r)
  | S n' => match read_bit r with
            | HOk (b, r1) => read_nbits_loop n' (py_shl val 1 + b2z b) r1
            | HReject e => HReject e | HEof => HEof | HCrash c => HCrash c | HOutOfFuel => HOutOfFuel
            end
  end.
Definition read_nbits (n : Z) (r : rd) := read_nbits_loop (Z.to_nat n) 0 r.
(* (A.3.4) *)
Definition read_uint_lit (n : Z) (r : rd) := read_nbits (8 * n) r.

(* (A.4.3) read_uint: value = 1; while read_bit == 0: value <<= 1; if read_bit == 1: value += 1;  value -= 1 *)
Fixpoint read_uint_loop (fuel : nat) (value : Z) (r : rd) : hres (Z * rd) :=
  match fuel with
  | O => HOutOfFuel
  | S f =>
      match read_bit r with
      | HOk (b, r1) =>
          if b then HOk (value - 1, r1)
          else match read_bit r1 with
               | HOk (b2, r2) => read_uint_loop f (if b2 then py_shl value 1 + 1 else py_shl value 1) r2
               | HReject e => HReject e | HEof => HEof | HCrash c => HCrash c | HOutOfFuel => HOutOfFuel
               end
      | HReject e => HReject e | HEof => HEof | HCrash c => HCrash c | HOutOfFuel => HOutOfFuel
      end
  end.
Definition read_uint (fuel : nat) (r : rd) := read_uint_loop fuel 1 r.

(* (A.4.4) read_sint (not used by the headers; part of the reader) *)
Definition read_sint (fuel : nat) (r : rd) : hres (Z * rd) :=
  match read_uint fuel r with
  | HOk (value, r1) =>
      if negb (value =? 0) then
        match read_bit r1 with
        | HOk (b, r2) => HOk (if b then - value else value, r2)
        | HReject e => HReject e | HEof => HEof | HCrash c => HCrash c | HOutOfFuel => HOutOfFuel
        end
      else HOk (value, r1)
  | HReject e => HReject e | HEof => HEof | HCrash c => HCrash c | HOutOfFuel => HOutOfFuel
  end.

(* (A.2.4) byte_align: if next_bit != 7: read_byte  (drops the rest of the current byte; never raises) *)
Definition byte_align (r : rd) : rd :=
  let k := py_mod (r_pos r) 8 in
  if k =? 0 then r else mkRd (skipn (Z.to_nat (8 - k)) (r_bits r)) (r_pos r + (8 - k)).

(* tell(state)[0]: byte offset of the next bit *)
Definition tell_byte (r : rd) : Z := py_div (r_pos r) 8.

(* ------------------------------------------------------------------ key ids *)
(* integer-valued entries of `state` *)
Definition S_major_version := 0.      Definition S_minor_version := 1.
Definition S_profile := 2.            Definition S_level := 3.
Definition S_picture_coding_mode := 4.
Definition S_luma_width := 5.         Definition S_luma_height := 6.
Definition S_color_diff_width := 7.   Definition S_color_diff_height := 8.
Definition S_luma_depth := 9.         Definition S_color_diff_depth := 10.
Definition S_expected_major_version := 11.       (* _expected_major_version *)
Definition S_level_sequence_matcher := 12.       (* _level_sequence_matcher: presence only *)
Definition S_picture_number := 13.
Definition S_last_picture_number := 14.          (* _last_picture_number (+ _offset, set together) *)
Definition S_num_pictures_in_sequence := 15.     (* _num_pictures_in_sequence *)
Definition S_wavelet_index := 16.     Definition S_dwt_depth := 17.
Definition S_wavelet_index_ho := 18.  Definition S_dwt_depth_ho := 19.
Definition S_slices_x := 20.          Definition S_slices_y := 21.
Definition S_slice_bytes_numerator := 22.   Definition S_slice_bytes_denominator := 23.
Definition S_slice_prefix_bytes := 24.      Definition S_slice_size_scaler := 25.
Definition S_parse_code := 26.
Definition S_fragment_data_length := 27.    Definition S_fragment_slice_count := 28.
Definition S_fragment_x_offset := 29.       Definition S_fragment_y_offset := 30.
Definition S_fragment_slices_remaining := 31.    (* _fragment_slices_remaining *)
Definition S_fragment_slices_received := 32.
Definition S_picture_initial_fragment_offset := 33.   (* _picture_initial_fragment_offset (bit position) *)
Definition S_next_parse_offset := 34. Definition S_previous_parse_offset := 35.
Definition S_last_parse_info_offset := 36.       (* _last_parse_info_offset *)
Definition S_generic_sequence_matcher := 37.     (* _generic_sequence_matcher: presence only *)
Definition n_state_keys := 38.

(* entries of VideoParameters (all twenty are created by set_source_defaults) *)
Definition V_frame_width := 0.        Definition V_frame_height := 1.
Definition V_color_diff_format_index := 2.  Definition V_source_sampling := 3.
Definition V_top_field_first := 4.
Definition V_frame_rate_numer := 5.   Definition V_frame_rate_denom := 6.
Definition V_pixel_aspect_ratio_numer := 7. Definition V_pixel_aspect_ratio_denom := 8.
Definition V_clean_width := 9.        Definition V_clean_height := 10.
Definition V_left_offset := 11.       Definition V_top_offset := 12.
Definition V_luma_offset := 13.       Definition V_luma_excursion := 14.
Definition V_color_diff_offset := 15. Definition V_color_diff_excursion := 16.
Definition V_color_primaries_index := 17.   Definition V_color_matrix_index := 18.
Definition V_transfer_function_index := 19.
Definition n_vp_keys := 20.

(* keys of LEVEL_CONSTRAINTS used by assert_level_constraint (numbered in alphabetical order; the
   harness reads this numbering from this file) *)
Definition K_asym_transform_flag := 0.          Definition K_asym_transform_index_flag := 1.
Definition K_base_video_format := 2.            Definition K_clean_height := 3.
Definition K_clean_width := 4.                  Definition K_color_diff_excursion := 5.
Definition K_color_diff_format_index := 6.      Definition K_color_diff_offset := 7.
Definition K_color_matrix_index := 8.           Definition K_color_primaries_index := 9.
Definition K_color_spec_index := 10.            Definition K_custom_clean_area_flag := 11.
Definition K_custom_color_diff_format_flag := 12.  Definition K_custom_color_matrix_flag := 13.
Definition K_custom_color_primaries_flag := 14. Definition K_custom_color_spec_flag := 15.
Definition K_custom_dimensions_flag := 16.      Definition K_custom_frame_rate_flag := 17.
Definition K_custom_pixel_aspect_ratio_flag := 18. Definition K_custom_quant_matrix := 19.
Definition K_custom_scan_format_flag := 20.     Definition K_custom_signal_range_flag := 21.
Definition K_custom_signal_range_index := 22.   Definition K_custom_transfer_function_flag := 23.
Definition K_dwt_depth := 24.                   Definition K_dwt_depth_ho := 25.
Definition K_frame_height := 26.                Definition K_frame_rate_denom := 27.
Definition K_frame_rate_index := 28.            Definition K_frame_rate_numer := 29.
Definition K_frame_width := 30.                 Definition K_left_offset := 31.
Definition K_level := 32.                       Definition K_luma_excursion := 33.
Definition K_luma_offset := 34.                 Definition K_major_version := 35.
Definition K_minor_version := 36.               Definition K_picture_coding_mode := 37.
Definition K_pixel_aspect_ratio_denom := 38.    Definition K_pixel_aspect_ratio_index := 39.
Definition K_pixel_aspect_ratio_numer := 40.    Definition K_profile := 41.
Definition K_qindex := 42.                      Definition K_quant_matrix_values := 43.
Definition K_slice_bytes_denominator := 44.     Definition K_slice_bytes_numerator := 45.
Definition K_slice_prefix_bytes := 46.          Definition K_slice_size_scaler := 47.
Definition K_slices_have_same_dimensions := 48. Definition K_slices_x := 49.
Definition K_slices_y := 50.                    Definition K_source_sampling := 51.
Definition K_top_offset := 52.                  Definition K_total_slice_bytes := 53.
Definition K_transfer_function_index := 54.     Definition K_wavelet_index := 55.
Definition K_wavelet_index_ho := 56.

(* subband orientations, as keys of quant_matrix[level] *)
Definition O_LL := 0. Definition O_L := 1. Definition O_H := 2.
Definition O_HL := 3. Definition O_LH := 4. Definition O_HH := 5.

(* ------------------------------------------------------------------ tables (vc2_data_tables, level_constraints) *)
Fixpoint lookup {A : Type} (d : list (Z * A)) (k : Z) : option A :=
  match d with
  | [] => None
  | (k', x) :: rest => if k' =? k then Some x else lookup rest k
  end.
Definition zmem (v : Z) (l : list Z) : bool := existsb (Z.eqb v) l.

(* BaseVideoFormatParameters named tuple *)
Record base_fmt := mkBase {
  bf_frame_width : Z; bf_frame_height : Z; bf_color_diff_format_index : Z; bf_source_sampling : Z;
  bf_top_field_first : Z; bf_frame_rate_index : Z; bf_pixel_aspect_ratio_index : Z;
  bf_clean_width : Z; bf_clean_height : Z; bf_left_offset : Z; bf_top_offset : Z;
  bf_signal_range_index : Z; bf_color_spec_index : Z }.

Definition cfg := (Z * Z * Z * Z)%type.    (* (wavelet_index, wavelet_index_ho, dwt_depth, dwt_depth_ho) *)
Definition cfg_eqb (a b : cfg) : bool :=
  let '(a1, a2, a3, a4) := a in let '(b1, b2, b3, b4) := b in
  (a1 =? b1) && (a2 =? b2) && (a3 =? b3) && (a4 =? b4).
Definition qmatrix := list ((Z * Z) * Z).   (* ((level, orientation), value) *)
Fixpoint lookup_cfg (d : list (cfg * qmatrix)) (k : cfg) : option qmatrix :=
  match d with
  | [] => None
  | (k', x) :: rest => if cfg_eqb k' k then Some x else lookup_cfg rest k
  end.

Record tables := mkTables {
  t_BaseVideoFormats : list Z;            (* enum values *)
  t_PictureCodingModes : list Z;
  t_Profiles : list Z;
  t_Levels : list Z;
  t_ColorDifferenceSamplingFormats : list Z;
  t_SourceSamplingModes : list Z;
  t_PresetFrameRates : list Z;
  t_PresetPixelAspectRatios : list Z;
  t_PresetSignalRanges : list Z;
  t_PresetColorSpecs : list Z;
  t_PresetColorPrimaries : list Z;
  t_PresetColorMatrices : list Z;
  t_PresetTransferFunctions : list Z;
  t_WaveletFilters : list Z;
  t_ParseCodes : list Z;
  t_BASE_VIDEO_FORMAT_PARAMETERS : list (Z * base_fmt);
  t_PRESET_FRAME_RATES : list (Z * (Z * Z));                (* numerator, denominator *)
  t_PRESET_PIXEL_ASPECT_RATIOS : list (Z * (Z * Z));
  t_PRESET_SIGNAL_RANGES : list (Z * (Z * Z * Z * Z));      (* luma_offset, luma_excursion, color_diff_offset, color_diff_excursion *)
  t_PRESET_COLOR_SPECS : list (Z * (Z * Z * Z));            (* color_primaries_index, color_matrix_index, transfer_function_index *)
  t_PROFILES : list (Z * list Z);                           (* allowed_parse_codes *)
  t_LEVEL_SEQUENCE_RESTRICTIONS : list (Z * bool);          (* key set; Matcher(regex).match_symbol("sequence_header") *)
  t_QUANTISATION_MATRICES : list (cfg * qmatrix);
  t_color_4_2_2 : Z; t_color_4_2_0 : Z;                     (* ColorDifferenceSamplingFormats members *)
  t_pictures_are_fields : Z;                                (* PictureCodingModes member *)
  t_end_of_sequence : Z;                                    (* ParseCodes member *)
  t_PARSE_INFO_PREFIX : Z; t_PARSE_INFO_HEADER_BYTES : Z }.

Definition isSome {A} (o : option A) : bool := match o with Some _ => true | None => false end.

(* what the code silently relies on: a value accepted by an enum check is a key of the table that
   is subscripted next, and the indices stored in BASE_VIDEO_FORMAT_PARAMETERS are keys of the
   preset tables; every level has a sequence restriction whose pattern starts with a sequence header *)
Definition base_ok (T : tables) (b : base_fmt) : bool :=
  isSome (lookup (t_PRESET_FRAME_RATES T) (bf_frame_rate_index b)) &&
  isSome (lookup (t_PRESET_PIXEL_ASPECT_RATIOS T) (bf_pixel_aspect_ratio_index b)) &&
  isSome (lookup (t_PRESET_SIGNAL_RANGES T) (bf_signal_range_index b)) &&
  isSome (lookup (t_PRESET_COLOR_SPECS T) (bf_color_spec_index b)).
Definition tables_ok (T : tables) : bool :=
  forallb (fun k => match lookup (t_BASE_VIDEO_FORMAT_PARAMETERS T) k with
                    | Some b => base_ok T b | None => false end) (t_BaseVideoFormats T) &&
  forallb (fun k => isSome (lookup (t_PRESET_FRAME_RATES T) k)) (t_PresetFrameRates T) &&
  forallb (fun k => isSome (lookup (t_PRESET_PIXEL_ASPECT_RATIOS T) k)) (t_PresetPixelAspectRatios T) &&
  forallb (fun k => isSome (lookup (t_PRESET_SIGNAL_RANGES T) k)) (t_PresetSignalRanges T) &&
  forallb (fun k => isSome (lookup (t_PRESET_COLOR_SPECS T) k)) (t_PresetColorSpecs T) &&
  forallb (fun k => isSome (lookup (t_PROFILES T) k)) (t_Profiles T) &&
  forallb (fun k => match lookup (t_LEVEL_SEQUENCE_RESTRICTIONS T) k with
                    | Some ok => ok | None => false end) (t_Levels T).

(* ------------------------------------------------------------------ the mutable state *)
Definition dict := Z -> option Z.
Definition empty_dict : dict := fun _ => None.
Definition upd (d : dict) (k : Z) (v : option Z) : dict := fun k' => if k' =? k then v else d k'.
Definition vdict := Z -> Z.
Definition vupd (d : vdict) (k : Z) (v : Z) : vdict := fun k' => if k' =? k then v else d k'.

(* _level_constrained_values: an OrderedDict; `d[k] = v` replaces in place or appends *)
Definition hist := list (Z * Z).
Fixpoint hset (h : hist) (k v : Z) : hist :=
  match h with
  | [] => [(k, v)]
  | (k', v') :: r => if k' =? k then (k', v) :: r else (k', v') :: hset r k v
  end.
Fixpoint qset (q : qmatrix) (k : Z * Z) (v : Z) : qmatrix :=
  match q with
  | [] => [(k, v)]
  | (k', v') :: r => if (fst k' =? fst k) && (snd k' =? snd k) then (k', v) :: r else (k', v') :: qset r k v
  end.

Record St := mkSt {
  s_st : dict;                    (* integer entries of `state` *)
  s_lcv : option hist;            (* state["_level_constrained_values"] *)
  s_qm : option qmatrix;          (* state["quant_matrix"] *)
  s_hdr : option (list bool);     (* state["_last_sequence_header_bytes"] (as bits) *)
  s_vp : vdict;                   (* the VideoParameters dict being filled in *)
  s_rd : rd }.
Definition set_st (s : St) (d : dict) : St := mkSt d (s_lcv s) (s_qm s) (s_hdr s) (s_vp s) (s_rd s).
Definition set_lcv (s : St) (h : option hist) : St := mkSt (s_st s) h (s_qm s) (s_hdr s) (s_vp s) (s_rd s).
Definition set_qm (s : St) (q : option qmatrix) : St := mkSt (s_st s) (s_lcv s) q (s_hdr s) (s_vp s) (s_rd s).
Definition set_hdr (s : St) (b : option (list bool)) : St := mkSt (s_st s) (s_lcv s) (s_qm s) b (s_vp s) (s_rd s).
Definition set_vp (s : St) (v : vdict) : St := mkSt (s_st s) (s_lcv s) (s_qm s) (s_hdr s) v (s_rd s).
Definition set_rd (s : St) (r : rd) : St := mkSt (s_st s) (s_lcv s) (s_qm s) (s_hdr s) (s_vp s) r.
(* state[k] = v  /  video_parameters[k] = v *)
Definition st_upd (s : St) (k v : Z) : St := set_st s (upd (s_st s) k (Some v)).
Definition vp_upd (s : St) (k v : Z) : St := set_vp s (vupd (s_vp s) k v).

(* ------------------------------------------------------------------ the monad *)
Definition M (A : Type) := St -> hres (A * St).
Definition ret {A} (a : A) : M A := fun s => HOk (a, s).
Definition bind {A B} (m : M A) (k : A -> M B) : M B := fun s =>
  match m s with
  | HOk (a, s') => k a s'
  | HReject e => HReject e | HEof => HEof | HCrash c => HCrash c | HOutOfFuel => HOutOfFuel
  end.
Notation "x <- m ;; k" := (bind m (fun x => k)) (at level 61, m at next level, right associativity).
Notation "m ;;; k" := (bind m (fun _ => k)) (at level 61, right associativity).
Definition raise {A} (e : cerr) : M A := fun _ => HReject e.
Definition crash {A} (c : pyexc) : M A := fun _ => HCrash c.
Definition out_of_fuel {A} : M A := fun _ => HOutOfFuel.
(* if c: raise e *)
Definition raise_if (c : bool) (e : cerr) : M unit := if c then raise e else ret tt.

(* state["k"] *)
Definition get_state (k : Z) : M Z := fun s =>
  match s_st s k with Some v => HOk (v, s) | None => HCrash X_KeyError end.
(* "k" in state *)
Definition has_state (k : Z) : M bool := fun s => HOk (isSome (s_st s k), s).
(* state.get("k", default) *)
Definition get_state_default (k : Z) (d : Z) : M Z := fun s =>
  HOk (match s_st s k with Some v => v | None => d end, s).
(* state["k"] = v *)
Definition set_state (k v : Z) : M unit := fun s => HOk (tt, st_upd s k v).
Definition get_vp (k : Z) : M Z := fun s => HOk (s_vp s k, s).
Definition set_vpk (k v : Z) : M unit := fun s => HOk (tt, vp_upd s k v).

Definition lift_rd {A} (f : rd -> hres (A * rd)) : M A := fun s =>
  match f (s_rd s) with
  | HOk (a, r) => HOk (a, set_rd s r)
  | HReject e => HReject e | HEof => HEof | HCrash c => HCrash c | HOutOfFuel => HOutOfFuel
  end.
Definition m_read_bool : M bool := lift_rd read_bit.       (* (A.3.2) read_bool: read_bit == 1 *)
Definition m_read_uint (fuel : nat) : M Z := lift_rd (read_uint fuel).
Definition m_read_uint_lit (n : Z) : M Z := lift_rd (read_uint_lit n).
Definition m_byte_align : M unit := fun s => HOk (tt, set_rd s (byte_align (s_rd s))).
Definition m_tell_byte : M Z := fun s => HOk (tell_byte (s_rd s), s).
Definition m_pos : M Z := fun s => HOk (r_pos (s_rd s), s).
Definition m_get_rd : M rd := fun s => HOk (s_rd s, s).
(* state["quant_matrix"] = q *)
Definition set_quant_matrix (q : qmatrix) : M unit := fun s => HOk (tt, set_qm s (Some q)).
(* state["_level_constrained_values"] (KeyError when absent) *)
Definition get_lcv : M hist := fun s =>
  match s_lcv s with None => HCrash X_KeyError | Some h => HOk (h, s) end.

(* a dictionary subscript  TABLE[k] *)
Definition subscript {A} (d : list (Z * A)) (k : Z) : M A := fun s =>
  match lookup d k with Some x => HOk (x, s) | None => HCrash X_KeyError end.
(* a % b with Python's ZeroDivisionError *)
Definition checked_mod (a b : Z) : M Z := if b =? 0 then crash X_ZeroDivisionError else ret (py_mod a b).
Definition checked_div (a b : Z) : M Z := if b =? 0 then crash X_ZeroDivisionError else ret (py_div a b).

(* the slice-geometry view of `state` used by the translated functions *)
Definition pystate_of (d : dict) : pystate :=
  let g k := match d k with Some v => v | None => 0 end in
  set_st_parse_code
   (set_st_slices_y
    (set_st_slice_bytes_denominator
     (set_st_slice_bytes_numerator
      (set_st_slices_x
       (set_st_color_diff_height
        (set_st_luma_height
         (set_st_color_diff_width
          (set_st_dwt_depth
           (set_st_dwt_depth_ho
            (set_st_luma_width empty_pystate (g S_luma_width))
            (g S_dwt_depth_ho))
           (g S_dwt_depth))
          (g S_color_diff_width))
         (g S_luma_height))
        (g S_color_diff_height))
       (g S_slices_x))
      (g S_slice_bytes_numerator))
     (g S_slice_bytes_denominator))
    (g S_slices_y))
   (g S_parse_code).

Definition m_pystate : M pystate := fun s => HOk (pystate_of (s_st s), s).

Section Headers.
  Variable T : tables.
  (* value in allowed_values_for(LEVEL_CONSTRAINTS, key, _level_constrained_values) *)
  Variable lvl : hist -> Z -> Z -> bool.
  (* the two pattern matchers as seen by ONE parse_info: does the matcher accept this parse code next *)
  Variable generic_accepts : Z -> bool.
  Variable level_accepts : Z -> bool.

  (* ---------------------------------------------------------------- assertions.py *)
  (* assert_in_enum: enum(value) raises ValueError -> exception_type *)
  Definition assert_in_enum (v : Z) (enum : list Z) (e : cerr) : M unit := raise_if (negb (zmem v enum)) e.

  (* assert_level_constraint: state.setdefault("_level_constrained_values", OrderedDict()); ... *)
  Definition assert_level_constraint (k v : Z) : M unit := fun s =>
    let h := match s_lcv s with Some h => h | None => [] end in
    if lvl h k v then HOk (tt, set_lcv s (Some (hset h k v)))
    else HReject E_ValueNotAllowedInLevel.

  (* log_version_lower_bound *)
  Definition log_version_lower_bound (v : Z) : M unit :=
    cur <- get_state_default S_expected_major_version 1 ;;
    set_state S_expected_major_version (py_max cur v).

  (* `minimum = f(index); if state["major_version"] < minimum: raise e; log_version_lower_bound(minimum)` *)
  Definition version_check (minimum : Z) (e : cerr) : M unit :=
    mv <- get_state S_major_version ;;
    raise_if (mv <? minimum) e ;;;
    log_version_lower_bound minimum.

  (* assert_picture_number_incremented_as_expected *)
  Definition assert_picture_number_incremented_as_expected : M unit :=
    has_last <- has_state S_last_picture_number ;;
    (if has_last then
       last <- get_state S_last_picture_number ;;
       pn <- get_state S_picture_number ;;
       raise_if (negb (pn =? Z.land (last + 1) 4294967295)) E_NonConsecutivePictureNumbers
     else ret tt) ;;;
    pn <- get_state S_picture_number ;;
    set_state S_last_picture_number pn ;;;
    pcm <- get_state S_picture_coding_mode ;;
    (if pcm =? t_pictures_are_fields T then
       n <- get_state S_num_pictures_in_sequence ;;
       raise_if ((py_mod n 2 =? 0) && negb (py_mod pn 2 =? 0)) E_EarliestFieldHasOddPictureNumber
     else ret tt) ;;;
    n <- get_state S_num_pictures_in_sequence ;;
    set_state S_num_pictures_in_sequence (n + 1).

  (* ---------------------------------------------------------------- (11.2.1) parse_parameters *)
  Definition parse_parameters (fuel : nat) : M unit :=
    major <- m_read_uint fuel ;; set_state S_major_version major ;;;
    raise_if (major <? 1) E_MajorVersionTooLow ;;;
    minor <- m_read_uint fuel ;; set_state S_minor_version minor ;;;
    raise_if (negb (minor =? 0)) E_MinorVersionNotZero ;;;
    profile <- m_read_uint fuel ;; set_state S_profile profile ;;;
    assert_in_enum profile (t_Profiles T) E_BadProfile ;;;
    version_check (profile_version_implication profile) E_ProfileNotSupportedByVersion ;;;
    level <- m_read_uint fuel ;; set_state S_level level ;;;
    assert_in_enum level (t_Levels T) E_BadLevel ;;;
    has_matcher <- has_state S_level_sequence_matcher ;;
    (if has_matcher then ret tt
     else
       starts_ok <- subscript (t_LEVEL_SEQUENCE_RESTRICTIONS T) level ;;
       set_state S_level_sequence_matcher 1 ;;;
       (* assert state["_level_sequence_matcher"].match_symbol("sequence_header") *)
       (if starts_ok then ret tt else crash X_AssertionError)) ;;;
    assert_level_constraint K_level level ;;;
    assert_level_constraint K_profile profile ;;;
    assert_level_constraint K_major_version major ;;;
    assert_level_constraint K_minor_version minor.

  (* ---------------------------------------------------------------- (11.4.2) set_source_defaults *)
  Definition set_source_defaults (base_video_format : Z) : M unit :=
    base <- subscript (t_BASE_VIDEO_FORMAT_PARAMETERS T) base_video_format ;;
    fr <- subscript (t_PRESET_FRAME_RATES T) (bf_frame_rate_index base) ;;
    par <- subscript (t_PRESET_PIXEL_ASPECT_RATIOS T) (bf_pixel_aspect_ratio_index base) ;;
    sr <- subscript (t_PRESET_SIGNAL_RANGES T) (bf_signal_range_index base) ;;
    cs <- subscript (t_PRESET_COLOR_SPECS T) (bf_color_spec_index base) ;;
    let '(lo, le, co, ce) := sr in
    let '(cp, cm, tf) := cs in
    fun s => HOk (tt, set_vp s (fun k =>
      if k =? V_frame_width then bf_frame_width base
      else if k =? V_frame_height then bf_frame_height base
      else if k =? V_color_diff_format_index then bf_color_diff_format_index base
      else if k =? V_source_sampling then bf_source_sampling base
      else if k =? V_top_field_first then bf_top_field_first base
      else if k =? V_frame_rate_numer then fst fr
      else if k =? V_frame_rate_denom then snd fr
      else if k =? V_pixel_aspect_ratio_numer then fst par
      else if k =? V_pixel_aspect_ratio_denom then snd par
      else if k =? V_clean_width then bf_clean_width base
      else if k =? V_clean_height then bf_clean_height base
      else if k =? V_left_offset then bf_left_offset base
      else if k =? V_top_offset then bf_top_offset base
      else if k =? V_luma_offset then lo
      else if k =? V_luma_excursion then le
      else if k =? V_color_diff_offset then co
      else if k =? V_color_diff_excursion then ce
      else if k =? V_color_primaries_index then cp
      else if k =? V_color_matrix_index then cm
      else if k =? V_transfer_function_index then tf
      else 0)).

  (* ---------------------------------------------------------------- (11.4.3) frame_size *)
  Definition frame_size (fuel : nat) : M unit :=
    flag <- m_read_bool ;;
    assert_level_constraint K_custom_dimensions_flag (b2z flag) ;;;
    if flag then
      w <- m_read_uint fuel ;; set_vpk V_frame_width w ;;;
      assert_level_constraint K_frame_width w ;;;
      h <- m_read_uint fuel ;; set_vpk V_frame_height h ;;;
      assert_level_constraint K_frame_height h ;;;
      raise_if ((w =? 0) || (h =? 0)) E_ZeroPixelFrameSize
    else ret tt.

  (* (11.4.4) color_diff_sampling_format *)
  Definition color_diff_sampling_format (fuel : nat) : M unit :=
    flag <- m_read_bool ;;
    assert_level_constraint K_custom_color_diff_format_flag (b2z flag) ;;;
    if flag then
      i <- m_read_uint fuel ;; set_vpk V_color_diff_format_index i ;;;
      assert_in_enum i (t_ColorDifferenceSamplingFormats T) E_BadColorDifferenceSamplingFormat ;;;
      assert_level_constraint K_color_diff_format_index i
    else ret tt.

  (* (11.4.5) scan_format *)
  Definition scan_format (fuel : nat) : M unit :=
    flag <- m_read_bool ;;
    assert_level_constraint K_custom_scan_format_flag (b2z flag) ;;;
    if flag then
      i <- m_read_uint fuel ;; set_vpk V_source_sampling i ;;;
      assert_in_enum i (t_SourceSamplingModes T) E_BadSourceSamplingMode ;;;
      assert_level_constraint K_source_sampling i
    else ret tt.

  (* (11.4.6) frame_rate *)
  Definition frame_rate (fuel : nat) : M unit :=
    flag <- m_read_bool ;;
    assert_level_constraint K_custom_frame_rate_flag (b2z flag) ;;;
    if flag then
      index <- m_read_uint fuel ;;
      assert_level_constraint K_frame_rate_index index ;;;
      if index =? 0 then
        n <- m_read_uint fuel ;; set_vpk V_frame_rate_numer n ;;;
        assert_level_constraint K_frame_rate_numer n ;;;
        d <- m_read_uint fuel ;; set_vpk V_frame_rate_denom d ;;;
        assert_level_constraint K_frame_rate_denom d ;;;
        raise_if (d =? 0) E_FrameRateHasZeroDenominator ;;;
        raise_if (n =? 0) E_FrameRateHasZeroNumerator
      else
        assert_in_enum index (t_PresetFrameRates T) E_BadPresetFrameRateIndex ;;;
        version_check (preset_frame_rate_version_implication index) E_PresetFrameRateNotSupportedByVersion ;;;
        (* preset_frame_rate *)
        p <- subscript (t_PRESET_FRAME_RATES T) index ;;
        set_vpk V_frame_rate_numer (fst p) ;;; set_vpk V_frame_rate_denom (snd p)
    else ret tt.

  (* (11.4.7) pixel_aspect_ratio *)
  Definition pixel_aspect_ratio (fuel : nat) : M unit :=
    flag <- m_read_bool ;;
    assert_level_constraint K_custom_pixel_aspect_ratio_flag (b2z flag) ;;;
    if flag then
      index <- m_read_uint fuel ;;
      assert_level_constraint K_pixel_aspect_ratio_index index ;;;
      if index =? 0 then
        n <- m_read_uint fuel ;; set_vpk V_pixel_aspect_ratio_numer n ;;;
        assert_level_constraint K_pixel_aspect_ratio_numer n ;;;
        d <- m_read_uint fuel ;; set_vpk V_pixel_aspect_ratio_denom d ;;;
        assert_level_constraint K_pixel_aspect_ratio_denom d ;;;
        raise_if ((n =? 0) || (d =? 0)) E_PixelAspectRatioContainsZeros
      else
        assert_in_enum index (t_PresetPixelAspectRatios T) E_BadPresetPixelAspectRatio ;;;
        p <- subscript (t_PRESET_PIXEL_ASPECT_RATIOS T) index ;;
        set_vpk V_pixel_aspect_ratio_numer (fst p) ;;; set_vpk V_pixel_aspect_ratio_denom (snd p)
    else ret tt.

  (* (11.4.8) clean_area *)
  Definition clean_area (fuel : nat) : M unit :=
    flag <- m_read_bool ;;
    assert_level_constraint K_custom_clean_area_flag (b2z flag) ;;;
    (if flag then
       cw <- m_read_uint fuel ;; set_vpk V_clean_width cw ;;;
       assert_level_constraint K_clean_width cw ;;;
       ch <- m_read_uint fuel ;; set_vpk V_clean_height ch ;;;
       assert_level_constraint K_clean_height ch ;;;
       lo <- m_read_uint fuel ;; set_vpk V_left_offset lo ;;;
       assert_level_constraint K_left_offset lo ;;;
       to <- m_read_uint fuel ;; set_vpk V_top_offset to ;;;
       assert_level_constraint K_top_offset to
     else ret tt) ;;;
    cw <- get_vp V_clean_width ;; ch <- get_vp V_clean_height ;;
    lo <- get_vp V_left_offset ;; to <- get_vp V_top_offset ;;
    fw <- get_vp V_frame_width ;; fh <- get_vp V_frame_height ;;
    raise_if (negb ((cw + lo <=? fw) && (ch + to <=? fh))) E_CleanAreaOutOfRange.

  (* (11.4.9) signal_range *)
  Definition signal_range (fuel : nat) : M unit :=
    flag <- m_read_bool ;;
    assert_level_constraint K_custom_signal_range_flag (b2z flag) ;;;
    if flag then
      index <- m_read_uint fuel ;;
      assert_level_constraint K_custom_signal_range_index index ;;;
      if index =? 0 then
        lo <- m_read_uint fuel ;; set_vpk V_luma_offset lo ;;;
        assert_level_constraint K_luma_offset lo ;;;
        le <- m_read_uint fuel ;; set_vpk V_luma_excursion le ;;;
        assert_level_constraint K_luma_excursion le ;;;
        raise_if (le <? 1) E_BadCustomSignalExcursion ;;;
        co <- m_read_uint fuel ;; set_vpk V_color_diff_offset co ;;;
        assert_level_constraint K_color_diff_offset co ;;;
        ce <- m_read_uint fuel ;; set_vpk V_color_diff_excursion ce ;;;
        assert_level_constraint K_color_diff_excursion ce ;;;
        raise_if (ce <? 1) E_BadCustomSignalExcursion
      else
        assert_in_enum index (t_PresetSignalRanges T) E_BadPresetSignalRange ;;;
        version_check (preset_signal_range_version_implication index) E_PresetSignalRangeNotSupportedByVersion ;;;
        p <- subscript (t_PRESET_SIGNAL_RANGES T) index ;;
        let '(lo, le, co, ce) := p in
        set_vpk V_luma_offset lo ;;; set_vpk V_luma_excursion le ;;;
        set_vpk V_color_diff_offset co ;;; set_vpk V_color_diff_excursion ce
    else ret tt.

  (* (11.4.10.2) color_primaries *)
  Definition color_primaries (fuel : nat) : M unit :=
    flag <- m_read_bool ;;
    assert_level_constraint K_custom_color_primaries_flag (b2z flag) ;;;
    if flag then
      index <- m_read_uint fuel ;;
      assert_in_enum index (t_PresetColorPrimaries T) E_BadPresetColorPrimaries ;;;
      assert_level_constraint K_color_primaries_index index ;;;
      version_check (preset_color_primaries_version_implication index) E_PresetColorPrimariesNotSupportedByVersion ;;;
      set_vpk V_color_primaries_index index
    else ret tt.

  (* (11.4.10.3) color_matrix *)
  Definition color_matrix (fuel : nat) : M unit :=
    flag <- m_read_bool ;;
    assert_level_constraint K_custom_color_matrix_flag (b2z flag) ;;;
    if flag then
      index <- m_read_uint fuel ;;
      assert_in_enum index (t_PresetColorMatrices T) E_BadPresetColorMatrix ;;;
      assert_level_constraint K_color_matrix_index index ;;;
      version_check (preset_color_matrix_version_implication index) E_PresetColorMatrixNotSupportedByVersion ;;;
      set_vpk V_color_matrix_index index
    else ret tt.

  (* (11.4.10.4) transfer_function *)
  Definition transfer_function (fuel : nat) : M unit :=
    flag <- m_read_bool ;;
    assert_level_constraint K_custom_transfer_function_flag (b2z flag) ;;;
    if flag then
      index <- m_read_uint fuel ;;
      assert_in_enum index (t_PresetTransferFunctions T) E_BadPresetTransferFunction ;;;
      assert_level_constraint K_transfer_function_index index ;;;
      version_check (preset_transfer_function_version_implication index) E_PresetTransferFunctionNotSupportedByVersion ;;;
      set_vpk V_transfer_function_index index
    else ret tt.

  (* (11.4.10.1) color_spec *)
  Definition color_spec (fuel : nat) : M unit :=
    flag <- m_read_bool ;;
    assert_level_constraint K_custom_color_spec_flag (b2z flag) ;;;
    if flag then
      index <- m_read_uint fuel ;;
      assert_in_enum index (t_PresetColorSpecs T) E_BadPresetColorSpec ;;;
      assert_level_constraint K_color_spec_index index ;;;
      (* preset_color_spec *)
      p <- subscript (t_PRESET_COLOR_SPECS T) index ;;
      let '(cp, cm, tf) := p in
      set_vpk V_color_primaries_index cp ;;; set_vpk V_color_matrix_index cm ;;;
      set_vpk V_transfer_function_index tf ;;;
      if index =? 0 then
        color_primaries fuel ;;; color_matrix fuel ;;; transfer_function fuel
      else
        version_check (preset_color_spec_version_implication index) E_PresetColorSpecNotSupportedByVersion
    else ret tt.

  (* (11.4.1) source_parameters *)
  Definition source_parameters (fuel : nat) (base_video_format : Z) : M unit :=
    set_source_defaults base_video_format ;;;
    frame_size fuel ;;; color_diff_sampling_format fuel ;;; scan_format fuel ;;; frame_rate fuel ;;;
    pixel_aspect_ratio fuel ;;; clean_area fuel ;;; signal_range fuel ;;; color_spec fuel.

  (* (11.6.2) picture_dimensions *)
  Definition picture_dimensions : M unit :=
    fw <- get_vp V_frame_width ;; fh <- get_vp V_frame_height ;;
    cdf <- get_vp V_color_diff_format_index ;;
    pcm <- get_state S_picture_coding_mode ;;
    let lw := fw in let lh := fh in
    let cw := lw in let ch := lh in
    let cw := if cdf =? t_color_4_2_2 T then py_div cw 2 else cw in
    let cw := if cdf =? t_color_4_2_0 T then py_div cw 2 else cw in
    let ch := if cdf =? t_color_4_2_0 T then py_div ch 2 else ch in
    let lh := if pcm =? t_pictures_are_fields T then py_div lh 2 else lh in
    let ch := if pcm =? t_pictures_are_fields T then py_div ch 2 else ch in
    set_state S_luma_width lw ;;; set_state S_luma_height lh ;;;
    set_state S_color_diff_width cw ;;; set_state S_color_diff_height ch.

  (* (11.6.3) video_depth *)
  Definition video_depth : M unit :=
    le <- get_vp V_luma_excursion ;; ce <- get_vp V_color_diff_excursion ;;
    set_state S_luma_depth (intlog2 (le + 1)) ;;; set_state S_color_diff_depth (intlog2 (ce + 1)).

  (* (11.6.1) set_coding_parameters (tied to the source by Proofs/HeadersBridge.v) *)
  Definition m_set_coding_parameters : M unit := picture_dimensions ;;; video_depth.

  (* record_bitstream_finish: the bytes read since record_bitstream_start, unread bits of the last byte zero *)
  Definition recorded_bits (r0 r1 : rd) : list bool :=
    let n := (length (r_bits r0) - length (r_bits r1))%nat in
    let used := firstn n (r_bits r0) in
    let k := py_mod (Z.of_nat n) 8 in
    used ++ (if k =? 0 then [] else repeat false (Z.to_nat (8 - k))).
  Definition bits_eqb (a b : list bool) : bool :=
    (Nat.eqb (length a) (length b)) && forallb (fun p => Bool.eqb (fst p) (snd p)) (combine a b).

  (* record_bitstream_finish; comparison with the previous sequence header of the sequence *)
  Definition finish_recording (r0 : rd) : M unit := fun s =>
    let bytes := recorded_bits r0 (s_rd s) in
    match s_hdr s with
    | Some last => if bits_eqb bytes last then HOk (tt, set_hdr s (Some bytes))
                   else HReject E_SequenceHeaderChangedMidSequence
    | None => HOk (tt, set_hdr s (Some bytes))
    end.

  (* ---------------------------------------------------------------- (11.1) sequence_header *)
  Definition sequence_header (fuel : nat) : M unit :=
    (* record_bitstream_start: assert state["next_bit"] == 7 *)
    pos0 <- m_pos ;;
    (if py_mod pos0 8 =? 0 then ret tt else crash X_AssertionError) ;;;
    r0 <- m_get_rd ;;
    parse_parameters fuel ;;;
    bvf <- m_read_uint fuel ;;
    assert_in_enum bvf (t_BaseVideoFormats T) E_BadBaseVideoFormat ;;;
    assert_level_constraint K_base_video_format bvf ;;;
    source_parameters fuel bvf ;;;
    pcm <- m_read_uint fuel ;; set_state S_picture_coding_mode pcm ;;;
    assert_in_enum pcm (t_PictureCodingModes T) E_BadPictureCodingMode ;;;
    assert_level_constraint K_picture_coding_mode pcm ;;;
    m_set_coding_parameters ;;;
    lh <- get_state S_luma_height ;; lw <- get_state S_luma_width ;;
    ch <- get_state S_color_diff_height ;; cw <- get_state S_color_diff_width ;;
    fw <- get_vp V_frame_width ;; fh <- get_vp V_frame_height ;;
    (* the short-circuit `or` chain, left to right *)
    raise_if (lh =? 0) E_PictureDimensionsNotMultipleOfFrameDimensions ;;;
    raise_if (lw =? 0) E_PictureDimensionsNotMultipleOfFrameDimensions ;;;
    raise_if (ch =? 0) E_PictureDimensionsNotMultipleOfFrameDimensions ;;;
    raise_if (cw =? 0) E_PictureDimensionsNotMultipleOfFrameDimensions ;;;
    m1 <- checked_mod fh lh ;; raise_if (negb (m1 =? 0)) E_PictureDimensionsNotMultipleOfFrameDimensions ;;;
    m2 <- checked_mod fw lw ;; raise_if (negb (m2 =? 0)) E_PictureDimensionsNotMultipleOfFrameDimensions ;;;
    m3 <- checked_mod fh ch ;; raise_if (negb (m3 =? 0)) E_PictureDimensionsNotMultipleOfFrameDimensions ;;;
    m4 <- checked_mod fw cw ;; raise_if (negb (m4 =? 0)) E_PictureDimensionsNotMultipleOfFrameDimensions ;;;
    finish_recording r0.

  (* ---------------------------------------------------------------- (12.2) picture_header *)
  Definition picture_header : M unit :=
    pn <- m_read_uint_lit 4 ;; set_state S_picture_number pn ;;;
    assert_picture_number_incremented_as_expected.

  (* (12.4.4.1) extended_transform_parameters *)
  Definition extended_transform_parameters (fuel : nat) : M unit :=
    f1 <- m_read_bool ;;
    assert_level_constraint K_asym_transform_index_flag (b2z f1) ;;;
    (if f1 then
       wi <- m_read_uint fuel ;; set_state S_wavelet_index_ho wi ;;;
       assert_in_enum wi (t_WaveletFilters T) E_BadHOWaveletIndex ;;;
       assert_level_constraint K_wavelet_index_ho wi
     else ret tt) ;;;
    f2 <- m_read_bool ;;
    assert_level_constraint K_asym_transform_flag (b2z f2) ;;;
    (if f2 then
       d <- m_read_uint fuel ;; set_state S_dwt_depth_ho d ;;;
       assert_level_constraint K_dwt_depth_ho d
     else ret tt) ;;;
    wi <- get_state S_wavelet_index ;; wih <- get_state S_wavelet_index_ho ;;
    dh <- get_state S_dwt_depth_ho ;;
    log_version_lower_bound (wavelet_transform_version_implication wi wih dh).

  (* (12.4.5.2) slice_parameters *)
  Definition slice_parameters (fuel : nat) : M unit :=
    sx <- m_read_uint fuel ;; set_state S_slices_x sx ;;;
    assert_level_constraint K_slices_x sx ;;;
    sy <- m_read_uint fuel ;; set_state S_slices_y sy ;;;
    assert_level_constraint K_slices_y sy ;;;
    raise_if ((sx =? 0) || (sy =? 0)) E_ZeroSlicesInCodedPicture ;;;
    (* slices_have_same_dimensions(state): reads the dimensions, depths and slice counts *)
    get_state S_luma_width ;;; get_state S_luma_height ;;;
    get_state S_color_diff_width ;;; get_state S_color_diff_height ;;;
    get_state S_dwt_depth ;;; get_state S_dwt_depth_ho ;;;
    ps <- m_pystate ;;
    (if slices_have_same_dimensions_dom ps then ret tt else crash X_ZeroDivisionError) ;;;
    assert_level_constraint K_slices_have_same_dimensions (b2z (slices_have_same_dimensions ps)) ;;;
    pc <- get_state S_parse_code ;;
    (if is_ld (set_st_parse_code empty_pystate pc) then
       n <- m_read_uint fuel ;; set_state S_slice_bytes_numerator n ;;;
       assert_level_constraint K_slice_bytes_numerator n ;;;
       d <- m_read_uint fuel ;; set_state S_slice_bytes_denominator d ;;;
       assert_level_constraint K_slice_bytes_denominator d ;;;
       raise_if (d =? 0) E_SliceBytesHasZeroDenominator ;;;
       raise_if (n <? d) E_SliceBytesIsLessThanOne
     else ret tt) ;;;
    (if is_hq (set_st_parse_code empty_pystate pc) then
       p <- m_read_uint fuel ;; set_state S_slice_prefix_bytes p ;;;
       assert_level_constraint K_slice_prefix_bytes p ;;;
       sc <- m_read_uint fuel ;; set_state S_slice_size_scaler sc ;;;
       raise_if (sc =? 0) E_SliceSizeScalerIsZero ;;;
       assert_level_constraint K_slice_size_scaler sc
     else ret tt).

  Definition qm_store (level orient v : Z) : M unit := fun s =>
    HOk (tt, set_qm s (Some (qset (match s_qm s with Some q => q | None => [] end) (level, orient) v))).
  (* one entry of a custom quantisation matrix:
     state["quant_matrix"][level][orient] = read_uint(state); check(...) *)
  Definition qm_entry (fuel : nat) (level orient : Z) : M unit :=
    v <- m_read_uint fuel ;;
    qm_store level orient v ;;;
    (* assert_in(value, allowed_values, QuantisationMatrixValueNotAllowedInLevel, state["_level_constrained_values"]) *)
    h <- get_lcv ;;
    raise_if (negb (lvl h K_quant_matrix_values v)) E_QuantisationMatrixValueNotAllowedInLevel.

  (* for level in range(level, hi): [H]   -- `n` is loop fuel *)
  Fixpoint qm_loop_h (n : nat) (fuel : nat) (level hi : Z) : M unit :=
    match n with
    | O => out_of_fuel
    | S n' => if level <? hi then qm_entry fuel level O_H ;;; qm_loop_h n' fuel (level + 1) hi else ret tt
    end.
  (* for level in range(level, hi): [HL, LH, HH] *)
  Fixpoint qm_loop_2d (n : nat) (fuel : nat) (level hi : Z) : M unit :=
    match n with
    | O => out_of_fuel
    | S n' => if level <? hi then
                qm_entry fuel level O_HL ;;; qm_entry fuel level O_LH ;;; qm_entry fuel level O_HH ;;;
                qm_loop_2d n' fuel (level + 1) hi
              else ret tt
    end.

  (* (12.4.5.3) quant_matrix *)
  Definition quant_matrix (fuel : nat) : M unit :=
    custom <- m_read_bool ;;
    assert_level_constraint K_custom_quant_matrix (b2z custom) ;;;
    if custom then
      (* allowed_values_for(LEVEL_CONSTRAINTS, "quant_matrix_values", state["_level_constrained_values"]) *)
      get_lcv ;;;
      set_quant_matrix [] ;;;
      dh <- get_state S_dwt_depth_ho ;;
      (if dh =? 0 then qm_entry fuel 0 O_LL
       else qm_entry fuel 0 O_L ;;; qm_loop_h fuel fuel 1 (dh + 1)) ;;;
      dh <- get_state S_dwt_depth_ho ;; d <- get_state S_dwt_depth ;;
      qm_loop_2d fuel fuel (dh + 1) (dh + d + 1)
    else
      wi <- get_state S_wavelet_index ;; wih <- get_state S_wavelet_index_ho ;;
      d <- get_state S_dwt_depth ;; dh <- get_state S_dwt_depth_ho ;;
      (* `configuration not in QUANTISATION_MATRICES` and the subscript in set_quant_matrix are on the
         same dictionary *)
      match lookup_cfg (t_QUANTISATION_MATRICES T) (wi, wih, d, dh) with
      | None => raise E_NoQuantisationMatrixAvailable
      | Some q => set_quant_matrix q
      end.

  (* (12.4.1) transform_parameters *)
  Definition transform_parameters (fuel : nat) : M unit :=
    wi <- m_read_uint fuel ;; set_state S_wavelet_index wi ;;;
    assert_in_enum wi (t_WaveletFilters T) E_BadWaveletIndex ;;;
    assert_level_constraint K_wavelet_index wi ;;;
    d <- m_read_uint fuel ;; set_state S_dwt_depth d ;;;
    assert_level_constraint K_dwt_depth d ;;;
    set_state S_wavelet_index_ho wi ;;; set_state S_dwt_depth_ho 0 ;;;
    mv <- get_state S_major_version ;;
    (if mv >=? 3 then extended_transform_parameters fuel else ret tt) ;;;
    slice_parameters fuel ;;;
    quant_matrix fuel.

  (* ---------------------------------------------------------------- (14.2) fragment_header *)
  Definition fragment_header : M unit :=
    fragment_offset <- m_pos ;;
    pn <- m_read_uint_lit 4 ;; set_state S_picture_number pn ;;;
    len <- m_read_uint_lit 2 ;; set_state S_fragment_data_length len ;;;
    count <- m_read_uint_lit 2 ;; set_state S_fragment_slice_count count ;;;
    (if count =? 0 then
       remaining <- get_state S_fragment_slices_remaining ;;
       (if negb (remaining =? 0) then
          (* the arguments of FragmentedPictureRestarted are evaluated before it is raised *)
          get_state S_picture_initial_fragment_offset ;;; get_state S_fragment_slices_received ;;;
          raise E_FragmentedPictureRestarted
        else ret tt) ;;;
       assert_picture_number_incremented_as_expected ;;;
       set_state S_picture_initial_fragment_offset fragment_offset
     else
       has_last <- has_state S_last_picture_number ;;
       (if has_last then
          last <- get_state S_last_picture_number ;;
          raise_if (negb (last =? pn)) E_PictureNumberChangedMidFragmentedPicture
        else ret tt) ;;;
       remaining <- get_state S_fragment_slices_remaining ;;
       (* state.get(...) in the arguments: no KeyError *)
       raise_if (count >? remaining) E_TooManySlicesInFragmentedPicture) ;;;
    if negb (count =? 0) then
      x <- m_read_uint_lit 2 ;; set_state S_fragment_x_offset x ;;;
      y <- m_read_uint_lit 2 ;; set_state S_fragment_y_offset y ;;;
      received <- get_state S_fragment_slices_received ;;
      sx <- get_state S_slices_x ;;
      ex <- checked_mod received sx ;;
      ey <- checked_div received sx ;;
      if negb (x =? ex) || negb (y =? ey) then
        get_state S_picture_initial_fragment_offset ;;; raise E_FragmentSlicesNotContiguous
      else ret tt
    else ret tt.

  (* ---------------------------------------------------------------- (10.5.1) parse_info *)
  Definition parse_info : M unit :=
    m_byte_align ;;;
    this_offset <- m_tell_byte ;;
    has_last <- has_state S_last_parse_info_offset ;;
    last_offset <- get_state_default S_last_parse_info_offset 0 ;;
    npo_prev <- get_state_default S_next_parse_offset 0 ;;
    (* if state.get("next_parse_offset"): *)
    (if negb (npo_prev =? 0) then
       (* this_parse_info_offset - last_parse_info_offset with None *)
       (if has_last then ret tt else crash X_TypeError) ;;;
       raise_if (negb (npo_prev =? 0) && negb (npo_prev =? this_offset - last_offset)) E_InconsistentNextParseOffset
     else ret tt) ;;;
    prefix <- m_read_uint_lit 4 ;;
    raise_if (negb (prefix =? t_PARSE_INFO_PREFIX T)) E_BadParseInfoPrefix ;;;
    pc <- m_read_uint_lit 1 ;; set_state S_parse_code pc ;;;
    assert_in_enum pc (t_ParseCodes T) E_BadParseCode ;;;
    get_state S_generic_sequence_matcher ;;;
    raise_if (negb (generic_accepts pc)) E_GenericInvalidSequence ;;;
    has_lm <- has_state S_level_sequence_matcher ;;
    (if has_lm then
       get_state S_level ;;; raise_if (negb (level_accepts pc)) E_LevelInvalidSequence
     else ret tt) ;;;
    has_profile <- has_state S_profile ;;
    (if has_profile then
       profile <- get_state S_profile ;;
       allowed <- subscript (t_PROFILES T) profile ;;
       raise_if (negb (zmem pc allowed)) E_ParseCodeNotAllowedInProfile
     else ret tt) ;;;
    let minimum := parse_code_version_implication pc in
    mv <- get_state_default S_major_version 1 ;;
    raise_if (mv <? minimum) E_ParseCodeNotSupportedByVersion ;;;
    log_version_lower_bound minimum ;;;
    npo <- m_read_uint_lit 4 ;; set_state S_next_parse_offset npo ;;;
    (let ps := set_st_parse_code empty_pystate pc in
     if pc =? t_end_of_sequence T then raise_if (negb (npo =? 0)) E_NonZeroNextParseOffsetAtEndOfSequence
     else if negb (is_picture ps || is_fragment ps) then raise_if (npo =? 0) E_MissingNextParseOffset
     else ret tt) ;;;
    raise_if ((1 <=? npo) && (npo <? t_PARSE_INFO_HEADER_BYTES T)) E_InvalidNextParseOffset ;;;
    ppo <- m_read_uint_lit 4 ;; set_state S_previous_parse_offset ppo ;;;
    (if has_last then
       raise_if (negb (ppo =? this_offset - last_offset)) E_InconsistentPreviousParseOffset
     else raise_if (negb (ppo =? 0)) E_NonZeroPreviousParseOffsetAtStartOfSequence) ;;;
    set_state S_last_parse_info_offset this_offset.

  (* ---------------------------------------------------------------- data-unit level programs *)
  (* (12.1) picture_parse up to the start of transform_data *)
  Definition picture_parse_header (fuel : nat) : M unit :=
    m_byte_align ;;; picture_header ;;; m_byte_align ;;;
    transform_parameters fuel ;;; m_byte_align.

  (* (14.1) fragment_parse up to the slices: fragment_header, and for a first fragment
     transform_parameters (initialize_fragment_state sets the two slice counters) *)
  Definition fragment_parse_header (fuel : nat) : M unit :=
    fragment_header ;;;
    count <- get_state S_fragment_slice_count ;;
    if count =? 0 then
      transform_parameters fuel ;;;
      set_state S_fragment_slices_received 0 ;;;
      sx <- get_state S_slices_x ;; sy <- get_state S_slices_y ;;
      set_state S_fragment_slices_remaining (sx * sy)
    else ret tt.
End Headers.

(* ------------------------------------------------------------------ canonical inputs / observations *)
Definition fuel_for (bs : list bool) : nat := S (length bs).

Definition dict_of_list (l : list (Z * Z)) : dict :=
  fold_left (fun d kv => upd d (fst kv) (Some (snd kv))) l empty_dict.
Definition init_S (st : list (Z * Z)) (lcv : option hist) (hdr : option (list bool)) (bits : list bool) (pos : Z) : St :=
  mkSt (dict_of_list st) lcv None hdr (fun _ => 0) (mkRd bits pos).

Definition range_Z (n : Z) : list Z := map Z.of_nat (seq 0 (Z.to_nat n)).
(* every integer entry of state: -1 = absent *)
Definition obs_state (s : St) : list Z :=
  map (fun k => match s_st s k with Some v => v | None => -1 end) (range_Z n_state_keys).
Definition obs_vp (s : St) : list Z := map (s_vp s) (range_Z n_vp_keys).
Definition obs_lcv (s : St) : list (Z * Z) := match s_lcv s with Some h => h | None => [] end.

(* bytes -> bits, most significant bit first *)
Definition byte_bits (b : Z) : list bool :=
  map (fun i => Z.testbit b i) [7; 6; 5; 4; 3; 2; 1; 0].
Definition bits_of_bytes (l : list Z) : list bool := flat_map byte_bits l.
