(* Model of vc2_conformance/symbol_re.py, part 4: make_matching_sequence, the
   breadth-first search that completes a list of required symbols to a sequence
   matching every pattern (used by encoder/sequence.py: make_sequence).

   Thin adapter over the Matcher model of C18 (Model/Matcher.v, `Directed` mode =
   the repaired code): only `new_matcher`, `match_symbol`, `is_complete` and
   `valid_next` are used.  No proofs in here (Proofs/MatchSeqProofs.v).

   Symbols are integers; the harness numbers the symbol names of a case in
   sorted (string) order starting at 1, so that `sorted`'s alphabetical order is
   the order of Z.  Python's WILDCARD = "." used *as a sequence symbol* (it is
   inserted into the result when no symbol_priority is given) is `wild_sym` = -1:
   it sorts before every name ("." < [0-9A-Za-z_]) and, no pattern being able to
   name it, is matched by `.` only.  END_OF_SEQUENCE never is a sequence symbol.

   Python sets are duplicate-free lists; the only place where the iteration
   order of a set is observable is the argument of `sorted`, and the model
   passes that set through an explicit enumeration function `enum` (identity in
   `make_seq`) so that independence of it can be stated (C19_order_independent). *)
From Coq Require Import ZArith List Bool.
From VC2 Require Import Model.Regex Model.NFA Model.Matcher.
Import ListNotations.
Open Scope Z_scope.

Definition wild_sym : sym := -1.

(* ---- sets of symbols ------------------------------------------------------- *)
Definition zmem (x : Z) (l : list Z) : bool := existsb (Z.eqb x) l.
Definition zadd (x : Z) (l : list Z) : list Z := if zmem x l then l else l ++ [x].
(* a.update(b) *)
Definition zunion (a b : list Z) : list Z := fold_left (fun acc x => zadd x acc) b a.
(* a.intersection_update(b) *)
Definition zinter (a b : list Z) : list Z := filter (fun x => zmem x b) a.
(* a.remove(x) *)
Definition zremove (x : Z) (a : list Z) : list Z := filter (fun y => negb (Z.eqb x y)) a.

(* ---- adapter to the Matcher ------------------------------------------------- *)
(* `symbols = matcher.valid_next_symbols(); symbols.discard(END_OF_SEQUENCE)` *)
Fixpoint syms_of_labels (ls : list label) : list sym :=
  match ls with
  | [] => []
  | LSym s :: r => zadd s (syms_of_labels r)
  | LAny :: r => zadd wild_sym (syms_of_labels r)
  | LEos :: r => syms_of_labels r
  end.
Definition vn_syms (m : matcher) : list sym := syms_of_labels (valid_next m).

(* `s in m.valid_next_symbols() or WILDCARD in m.valid_next_symbols()` *)
Definition accepts_next (m : matcher) (s : sym) : bool :=
  zmem s (vn_syms m) || zmem wild_sym (vn_syms m).

(* `new_matchers = deepcopy(matchers); for m in new_matchers: m.match_symbol(s)`
   (the result of match_symbol is ignored by the code) *)
Definition advance (ms : list matcher) (s : sym) : list matcher :=
  map (fun m => snd (match_symbol m s)) ms.

(* ---- candidate symbols -------------------------------------------------------- *)
(* one round of the `for matcher in matchers` loop *)
Definition cand_step (cand symbols : list sym) : list sym :=
  if zmem wild_sym symbols && zmem wild_sym cand then zunion cand symbols
  else if zmem wild_sym cand then symbols
  else if zmem wild_sym symbols then cand
  else zinter cand symbols.

Definition cand_set (ms : list matcher) : list sym :=
  fold_left (fun cand m => cand_step cand (vn_syms m)) ms [wild_sym].

Definition is_nil {A} (l : list A) : bool := match l with [] => true | _ => false end.

(* "Substitute wildcard for concrete symbols if possible" *)
Definition subst_wild (prio cand : list sym) : list sym :=
  if zmem wild_sym cand && negb (is_nil prio) then zunion (zremove wild_sym cand) prio else cand.

(* the sort key: (symbol_priority.index(sym), None) or (len(symbol_priority), sym) *)
Fixpoint index_of (s : sym) (l : list sym) (i : Z) : option Z :=
  match l with
  | [] => None
  | x :: r => if Z.eqb s x then Some i else index_of s r (i + 1)
  end.
Definition sort_key (prio : list sym) (s : sym) : Z * Z :=
  match index_of s prio 0 with
  | Some i => (i, 0)
  | None => (Z.of_nat (length prio), s)
  end.
Definition key_leb (a b : Z * Z) : bool :=
  (fst a <? fst b) || ((fst a =? fst b) && (snd a <=? snd b)).

(* `sorted(set, key=...)`: a stable sort (insertion sort, walking the input from
   the right so that equal keys keep their order) *)
Fixpoint insert_by (prio : list sym) (x : sym) (l : list sym) : list sym :=
  match l with
  | [] => [x]
  | y :: r => if key_leb (sort_key prio x) (sort_key prio y) then x :: y :: r else y :: insert_by prio x r
  end.
Definition sort_cands (prio : list sym) (l : list sym) : list sym :=
  fold_right (insert_by prio) [] l.

(* candidate_symbols of a search state, in the order they are tried *)
Definition candidates (enum : list sym -> list sym) (prio : list sym) (ms : list matcher) : list sym :=
  sort_cands prio (enum (subst_wild prio (cand_set ms))).

(* ---- the search --------------------------------------------------------------- *)
(* a queue entry (symbols_so_far, symbols_remaining, matchers, this_depth_limit) *)
Record node := mkNode {
  n_sofar : list sym;
  n_rem : list sym;
  n_ms : list matcher;
  n_d : Z
}.

(* what one iteration of the `while queue` loop does with the popped entry:
   return, or append entries to the queue *)
Inductive xres := Found (out : list sym) | Children (cs : list node).

Definition expand (enum : list sym -> list sym) (prio : list sym) (limit : Z) (nd : node) : xres :=
  let insertions :=
    if n_d nd <=? 0 then Children []
    else Children (map (fun c => mkNode (n_sofar nd ++ [c]) (n_rem nd) (advance (n_ms nd) c) (n_d nd - 1))
                       (candidates enum prio (n_ms nd))) in
  match n_rem nd with
  | [] => if forallb is_complete (n_ms nd) then Found (n_sofar nd) else insertions
  | s :: rem' =>
    if forallb (fun m => accepts_next m s) (n_ms nd)
    then Children [mkNode (n_sofar nd ++ [s]) rem' (advance (n_ms nd) s) limit]
    else insertions
  end.

Inductive result := Seq (out : list sym) | Impossible | OutOfFuel.

(* the `while queue` loop; fuel = number of iterations allowed *)
Fixpoint bfs (ex : node -> xres) (fuel : nat) (queue : list node) : result :=
  match fuel with
  | O => OutOfFuel
  | S f =>
    match queue with
    | [] => Impossible                          (* raise ImpossibleSequenceError() *)
    | nd :: q =>
      match ex nd with
      | Found out => Seq out
      | Children cs => bfs ex f (q ++ cs)
      end
    end
  end.

Definition root (init : list sym) (pats : list re) (limit : Z) : node :=
  mkNode [] init (map (new_matcher Directed) pats) limit.

Definition make_seq_gen (enum : list sym -> list sym) (fuel : nat)
           (init : list sym) (pats : list re) (limit : Z) (prio : list sym) : result :=
  bfs (expand enum prio limit) fuel [root init pats limit].

(* make_matching_sequence(init, *pats, depth_limit=limit, symbol_priority=prio) *)
Definition make_seq := make_seq_gen (fun l => l).
