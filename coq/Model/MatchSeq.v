(* Model of vc2_conformance/symbol_re.py, part 4: make_matching_sequence, the
   breadth-first search that completes a list of required symbols to a sequence
   matching every pattern (used by encoder/sequence.py: make_sequence).

   Thin adapter over the Matcher model of C18 (Model/Matcher.v, `Directed` mode =
   the repaired code): only `new_matcher`, `match_symbol`, `is_complete` and
   `valid_next` are used.  No proofs in here (Proofs/MatchSeqProofs.v).

   Symbols are integers; the harness numbers the symbol names of a case in
   sorted (string) order starting at 1, so that `sorted`'s alphabetical order is
   the order of Z.  Python's WILDCARD = "." used *as a sequence symbol* (it is
   inserted into the result when no symbol_priority is given) is `wild_sym` = -1:
   no pattern being able to name it, it is matched by `.` only.  In the sets the
   code computes, WILDCARD is the label LAny (it sorts before every name:
   "." < [0-9A-Za-z_]).  END_OF_SEQUENCE never is a sequence symbol.

   Python sets are duplicate-free lists; the only place where the iteration
   order of a set is observable is the argument of `sorted`, and the model
   passes that set through an explicit enumeration function `enum` (identity in
   `make_seq`) so that independence of it can be stated (C19_order_independent). *)
From Coq Require Import ZArith List Bool.
From VC2 Require Import Model.Regex Model.NFA Model.Matcher.
Import ListNotations.
Open Scope Z_scope.

Definition wild_sym : sym := -1.

(* ---- sets of symbols: duplicate-free lists of labels (LSym s = the symbol s,
   LAny = WILDCARD, LEos = END_OF_SEQUENCE) -------------------------------------- *)
Definition lmem (x : label) (l : list label) : bool := existsb (label_eqb x) l.
Definition ladd (x : label) (l : list label) : list label := if lmem x l then l else l ++ [x].
(* a.update(b) *)
Definition lunion (a b : list label) : list label := fold_left (fun acc x => ladd x acc) b a.
(* a.intersection_update(b) *)
Definition linter (a b : list label) : list label := filter (fun x => lmem x b) a.
(* a.remove(x) / a.discard(x) *)
Definition lremove (x : label) (a : list label) : list label := filter (fun y => negb (label_eqb x y)) a.

(* ---- adapter to the Matcher ------------------------------------------------- *)
(* `m.valid_next_symbols()` as a set *)
Definition vn_set (m : matcher) : list label := lunion [] (valid_next m).

(* `s in m.valid_next_symbols() or WILDCARD in m.valid_next_symbols()` *)
Definition accepts_next (m : matcher) (s : sym) : bool :=
  lmem (LSym s) (vn_set m) || lmem LAny (vn_set m).

(* `new_matchers = deepcopy(matchers); for m in new_matchers: m.match_symbol(s)`
   (the result of match_symbol is ignored by the code) *)
Definition advance (ms : list matcher) (s : sym) : list matcher :=
  map (fun m => snd (match_symbol m s)) ms.

(* ---- candidate symbols -------------------------------------------------------- *)
(* one round of the `for matcher in matchers` loop; `symbols` already without
   END_OF_SEQUENCE *)
Definition cand_step (cand symbols : list label) : list label :=
  if lmem LAny symbols && lmem LAny cand then lunion cand symbols
  else if lmem LAny cand then symbols
  else if lmem LAny symbols then cand
  else linter cand symbols.

Definition cand_set (ms : list matcher) : list label :=
  fold_left (fun cand m => cand_step cand (lremove LEos (vn_set m))) ms [LAny].

Definition is_nil {A} (l : list A) : bool := match l with [] => true | _ => false end.

(* "Substitute wildcard for concrete symbols if possible" *)
Definition subst_wild (prio : list sym) (cand : list label) : list label :=
  if lmem LAny cand && negb (is_nil prio) then lunion (lremove LAny cand) (map LSym prio) else cand.

(* the sort key: (symbol_priority.index(sym), None) or (len(symbol_priority), sym), as a
   triple of numbers ordered lexicographically: WILDCARD = "." sorts before every symbol
   name.  (END_OF_SEQUENCE never is a candidate; it gets a key of its own.) *)
Fixpoint index_of (s : sym) (l : list sym) (i : Z) : option Z :=
  match l with
  | [] => None
  | x :: r => if Z.eqb s x then Some i else index_of s r (i + 1)
  end.
Definition sort_key (prio : list sym) (l : label) : Z * Z * Z :=
  let n := Z.of_nat (length prio) in
  match l with
  | LSym s => match index_of s prio 0 with Some i => (i, 0, 0) | None => (n, 1, s) end
  | LAny => (n, 0, 0)
  | LEos => (n, 2, 0)
  end.
Definition key_leb (a b : Z * Z * Z) : bool :=
  match a, b with
  | (a1, a2, a3), (b1, b2, b3) =>
    (a1 <? b1) || ((a1 =? b1) && ((a2 <? b2) || ((a2 =? b2) && (a3 <=? b3))))
  end.

(* `sorted(set, key=...)`: a stable sort (insertion sort, walking the input from
   the right so that equal keys keep their order) *)
Fixpoint insert_by (prio : list sym) (x : label) (l : list label) : list label :=
  match l with
  | [] => [x]
  | y :: r => if key_leb (sort_key prio x) (sort_key prio y) then x :: y :: r else y :: insert_by prio x r
  end.
Definition sort_cands (prio : list sym) (l : list label) : list label :=
  fold_right (insert_by prio) [] l.

(* the symbol a candidate stands for in a sequence *)
Definition sym_of_label (l : label) : sym := match l with LSym s => s | _ => wild_sym end.

(* candidate_symbols of a search state, in the order they are tried; `enum` is the
   order in which `sorted` iterates over the set *)
Definition candidates (enum : list label -> list label) (prio : list sym) (ms : list matcher) : list sym :=
  map sym_of_label (sort_cands prio (enum (subst_wild prio (cand_set ms)))).

(* ---- the search --------------------------------------------------------------- *)
(* a queue entry (symbols_so_far, symbols_remaining, matchers, this_depth_limit) *)
Record node := mkNode {
  n_sofar : list sym;
  n_rem : list sym;
  n_ms : list matcher;
  n_d : Z
}.

(* what one iteration of the `while queue` loop does with the popped entry:
   return, or append entries to the queue *)
Inductive xres := Found (out : list sym) | Children (cs : list node).

Definition expand (enum : list label -> list label) (prio : list sym) (limit : Z) (nd : node) : xres :=
  let insertions :=
    if n_d nd <=? 0 then Children []
    else Children (map (fun c => mkNode (n_sofar nd ++ [c]) (n_rem nd) (advance (n_ms nd) c) (n_d nd - 1))
                       (candidates enum prio (n_ms nd))) in
  match n_rem nd with
  | [] => if forallb is_complete (n_ms nd) then Found (n_sofar nd) else insertions
  | s :: rem' =>
    if forallb (fun m => accepts_next m s) (n_ms nd)
    then Children [mkNode (n_sofar nd ++ [s]) rem' (advance (n_ms nd) s) limit]
    else insertions
  end.

Inductive result := Seq (out : list sym) | Impossible | OutOfFuel.

(* the `while queue` loop; fuel = number of iterations allowed *)
Fixpoint bfs (ex : node -> xres) (fuel : nat) (queue : list node) : result :=
  match fuel with
  | O => OutOfFuel
  | S f =>
    match queue with
    | [] => Impossible                          (* raise ImpossibleSequenceError() *)
    | nd :: q =>
      match ex nd with
      | Found out => Seq out
      | Children cs => bfs ex f (q ++ cs)
      end
    end
  end.

Definition root (init : list sym) (pats : list re) (limit : Z) : node :=
  mkNode [] init (map (new_matcher Directed) pats) limit.

Definition make_seq_gen (enum : list label -> list label) (fuel : nat)
           (init : list sym) (pats : list re) (limit : Z) (prio : list sym) : result :=
  bfs (expand enum prio limit) fuel [root init pats limit].

(* make_matching_sequence(init, *pats, depth_limit=limit, symbol_priority=prio) *)
Definition make_seq := make_seq_gen (fun l => l).

(* ---- specification helpers (used by the theorem statements) ---------------------- *)
(* the Matchers of all patterns after the symbols w; None if one of them rejected *)
Fixpoint feed_all (pats : list re) (w : list sym) : option (list matcher) :=
  match pats with
  | [] => Some []
  | p :: r =>
    match feed Directed p w, feed_all r w with
    | Some m, Some l => Some (m :: l)
    | _, _ => None
    end
  end.

(* the symbols the search tries to insert after w *)
Definition cands_at (pats : list re) (prio : list sym) (w : list sym) : list sym :=
  match feed_all pats w with
  | Some ms => candidates (fun l => l) prio ms
  | None => []
  end.
