(* Model of vc2_conformance/constraint_table.py : ValueSet / AnyValue   (property C17; tie C).

   Python                                   model
   ------                                   -----
   self._values : set of values             vs_values : list Z   (duplicate free; order = one
   self._ranges : set of (lo, hi) tuples    vs_ranges : list (Z*Z)  possible iteration order)
   AnyValue()                               Any
   bool values (True == 1, False == 0,      the integer (the harness maps with int());
     same hash, so one set element)

   Python iterates a `set` in an order the model does not know.  Every function below
   takes the list order as the iteration order; the theorems (Proofs/ValueSetProofs.v) are
   stated for EVERY order (relation `builds` closes the reachable states under permutation
   of both lists), and the correspondence run compares states up to permutation.

   No proofs in this file. *)
From Coq Require Import ZArith List Bool.
Import ListNotations.
Open Scope Z_scope.

Record vstate := mkVS { vs_values : list Z; vs_ranges : list (Z * Z) }.

(* a ValueSet object: an ordinary one or the AnyValue wildcard (a subclass in Python) *)
Inductive vset := VS (s : vstate) | Any.

Definition vs_empty : vstate := mkVS [] [].

Definition zmem (v : Z) (l : list Z) : bool := existsb (Z.eqb v) l.
Definition pair_eqb (a b : Z * Z) : bool := (fst a =? fst b) && (snd a =? snd b).
Definition rmem (r : Z * Z) (l : list (Z * Z)) : bool := existsb (pair_eqb r) l.

(* lower_bound <= value <= upper_bound *)
Definition in_range (v : Z) (r : Z * Z) : bool := (fst r <=? v) && (v <=? snd r).

(* ValueSet.__contains__ :  value in self._values, else any range holding it *)
Definition st_contains (s : vstate) (v : Z) : bool :=
  zmem v (vs_values s) || existsb (in_range v) (vs_ranges s).

Definition contains (a : vset) (v : Z) : bool :=
  match a with Any => true | VS s => st_contains s v end.

(* ValueSet.add_value :  if value not in self: self._values.add(value) *)
Definition add_value (s : vstate) (v : Z) : vstate :=
  if st_contains s v then s else mkVS (v :: vs_values s) (vs_ranges s).

(* The loop of add_range over self._ranges, exactly as written: ONE pass, the bounds grow
   while the pass is running, a range is put on the removal list when it overlaps the
   bounds *as they are when it is visited*.  Returns the final bounds and the ranges NOT on
   the removal list (self._ranges is duplicate free, so removing the listed tuples leaves
   exactly the unlisted ones). *)
Fixpoint merge_pass (rs : list (Z * Z)) (lo hi : Z) : Z * Z * list (Z * Z) :=
  match rs with
  | [] => (lo, hi, [])
  | (ol, oh) :: rest =>
      if (lo <=? oh) && (ol <=? hi)
      then merge_pass rest (Z.min lo ol) (Z.max hi oh)
      else let '(l, h, kept) := merge_pass rest lo hi in (l, h, (ol, oh) :: kept)
  end.

(* set.add on the set of ranges *)
Definition range_set_add (r : Z * Z) (l : list (Z * Z)) : list (Z * Z) :=
  if rmem r l then l else r :: l.

(* ValueSet.add_range *)
Definition add_range (s : vstate) (lo hi : Z) : vstate :=
  let vals := filter (fun v => negb ((lo <=? v) && (v <=? hi))) (vs_values s) in
  let '(l, h, kept) := merge_pass (vs_ranges s) lo hi in
  mkVS vals (range_set_add (l, h) kept).

(* AnyValue.add_value / add_range are `pass` *)
Definition add_value_vs (a : vset) (v : Z) : vset :=
  match a with Any => Any | VS s => VS (add_value s v) end.
Definition add_range_vs (a : vset) (lo hi : Z) : vset :=
  match a with Any => Any | VS s => VS (add_range s lo hi) end.

(* ValueSet.__add__ / AnyValue.__add__ : fresh set; self's values, other's values,
   self's ranges, other's ranges *)
Definition st_union (a b : vstate) : vstate :=
  let s1 := fold_left add_value (vs_values a) vs_empty in
  let s2 := fold_left add_value (vs_values b) s1 in
  let s3 := fold_left (fun s r => add_range s (fst r) (snd r)) (vs_ranges a) s2 in
  fold_left (fun s r => add_range s (fst r) (snd r)) (vs_ranges b) s3.

Definition union (a b : vset) : vset :=
  match a, b with
  | VS sa, VS sb => VS (st_union sa sb)
  | _, _ => Any
  end.

Definition st_is_empty (s : vstate) : bool :=
  match vs_values s, vs_ranges s with [], [] => true | _, _ => false end.

(* ValueSet.is_disjoint (other a plain ValueSet): values of each in the other, then both
   end points of every range of each in the other *)
Definition st_disjoint (a b : vstate) : bool :=
  forallb (fun v => negb (st_contains b v)) (vs_values a)
  && forallb (fun v => negb (st_contains a v)) (vs_values b)
  && forallb (fun r => negb (st_contains b (fst r)) && negb (st_contains b (snd r))) (vs_ranges a)
  && forallb (fun r => negb (st_contains a (fst r)) && negb (st_contains a (snd r))) (vs_ranges b).

(* ValueSet.is_disjoint / AnyValue.is_disjoint *)
Definition is_disjoint (a b : vset) : bool :=
  match a, b with
  | VS sa, VS sb => st_disjoint sa sb
  | VS sa, Any => st_is_empty sa
  | Any, VS sb => st_is_empty sb
  | Any, Any => false
  end.

(* ValueSet.__iter__ : the values, then the (lo, hi) tuples *)
Inductive vitem := ItVal (v : Z) | ItRange (lo hi : Z).
Definition st_iter (s : vstate) : list vitem :=
  map ItVal (vs_values s) ++ map (fun r => ItRange (fst r) (snd r)) (vs_ranges s).

(* range(lo, lo + n) *)
Fixpoint zrange (lo : Z) (n : nat) : list Z :=
  match n with O => [] | S n' => lo :: zrange (lo + 1) n' end.

(* ValueSet.iter_values : values, then range(low, high + 1) of every range *)
Definition st_iter_values (s : vstate) : list Z :=
  vs_values s ++ flat_map (fun r => zrange (fst r) (Z.to_nat (snd r + 1 - fst r))) (vs_ranges s).

(* ---- operation sequences: ValueSet(...), add_value, add_range, + ------------------ *)
Inductive vexpr :=
| EEmpty                                  (* ValueSet() *)
| EAny                                    (* AnyValue() *)
| EAddV (e : vexpr) (v : Z)               (* e.add_value(v) *)
| EAddR (e : vexpr) (lo hi : Z)           (* e.add_range(lo, hi) *)
| EUnion (a b : vexpr).                   (* a + b *)

Fixpoint build (e : vexpr) : vset :=
  match e with
  | EEmpty => VS vs_empty
  | EAny => Any
  | EAddV e v => add_value_vs (build e) v
  | EAddR e lo hi => add_range_vs (build e) lo hi
  | EUnion a b => union (build a) (build b)
  end.
