(* Model of vc2_conformance/constraint_table.py : filter_constraint_table,
   is_allowed_combination, allowed_values_for, read_constraints_from_csv (on an abstract
   cell syntax) and of decoder/assertions.py : assert_level_constraint   (property C17; tie C).

   Python dict  {key: x}  =  association list, first binding wins, `d[k] = x` replaces the
   binding in place or appends (insertion order, as Python keeps it).  Keys are compared
   by equality only; the model uses integers (the harness numbers the key strings).

   No proofs in this file. *)
From Coq Require Import ZArith List Bool.
From VC2 Require Import Model.ValueSet.
Import ListNotations.
Open Scope Z_scope.

Definition key := Z.

Section Dict.
  Context {A : Type}.
  Fixpoint lookup (d : list (key * A)) (k : key) : option A :=
    match d with
    | [] => None
    | (k', x) :: r => if k' =? k then Some x else lookup r k
    end.
  (* d[k] = x *)
  Fixpoint dict_set (d : list (key * A)) (k : key) (x : A) : list (key * A) :=
    match d with
    | [] => [(k, x)]
    | (k', y) :: r => if k' =? k then (k', x) :: r else (k', y) :: dict_set r k x
    end.
End Dict.
(* len(x) == 0 *)
Definition is_nil {B : Type} (l : list B) : bool := match l with [] => true | _ => false end.

Definition entry := list (key * vset).       (* one allowed combination {key: ValueSet} *)
Definition table := list entry.              (* constraint table *)
Definition assignment := list (key * Z).     (* {key: value} *)

(* all(key in allowed_combination and value in allowed_combination[key] for key, value in values.items()) *)
Definition matches (e : entry) (vals : assignment) : bool :=
  forallb (fun kv => match lookup e (fst kv) with
                     | Some s => contains s (snd kv)
                     | None => false
                     end) vals.

(* filter_constraint_table: ... or len(allowed_combination) == 0   # Special case: 'catch all' rule *)
Definition filter_constraint_table (T : table) (vals : assignment) : table :=
  filter (fun e => matches e vals || is_nil e) T.

(* len(filter_constraint_table(constraint_table, values)) > 0 *)
Definition is_allowed_combination (T : table) (vals : assignment) : bool :=
  negb (is_nil (filter_constraint_table T vals)).

(* allowed_values_for(constraint_table, key, values, any_value) *)
Definition allowed_values_for (T : table) (k : key) (vals : assignment) (any_value : vset) : vset :=
  let out := fold_left (fun out e => union out (match lookup e k with Some s => s | None => VS vs_empty end))
                       (filter_constraint_table T vals) (VS vs_empty) in
  match out with Any => any_value | VS _ => out end.

(* ---- decoder/assertions.py assert_level_constraint --------------------------------
   allowed = allowed_values_for(LEVEL_CONSTRAINTS, key, state["_level_constrained_values"])
   if value not in allowed: raise ValueNotAllowedInLevel   else: constrained[key] = value *)
Definition level_step (T : table) (cv : assignment) (kv : key * Z) : option assignment :=
  if contains (allowed_values_for T (fst kv) cv Any) (snd kv)
  then Some (dict_set cv (fst kv) (snd kv))
  else None.

(* the validator: one call per (key, value) in stream order, stops at the first raise;
   None = ValueNotAllowedInLevel was raised, Some cv = final _level_constrained_values *)
Fixpoint level_check_from (T : table) (cv : assignment) (kvs : list (key * Z)) : option assignment :=
  match kvs with
  | [] => Some cv
  | kv :: rest => match level_step T cv kv with
                  | Some cv' => level_check_from T cv' rest
                  | None => None
                  end
  end.
Definition level_check (T : table) (kvs : list (key * Z)) : option assignment :=
  level_check_from T [] kvs.

(* the dictionary holding a sequence of assignments (later ones overwrite) *)
Definition dict_of (kvs : list (key * Z)) : assignment :=
  fold_left (fun d kv => dict_set d (fst kv) (snd kv)) kvs [].

(* ---- read_constraints_from_csv on abstract cells ----------------------------------
   A data row of the file = (key, cells).  A cell is a ditto mark, 'any', or a comma
   separated list of items: integer, lo-hi, TRUE/FALSE.  (Tokenisation of the text --
   csv.reader, strip/lower, int(), partition("-"), skipping of blank and '#' rows -- is
   outside the model; the correspondence run prints abstract tables to CSV text.) *)
Inductive item := IVal (z : Z) | IRange (a b : Z) | IBool (b : bool).
Inductive cell := Ditto | CAny | Items (l : list item).
Definition row := (key * list cell)%type.

Definition add_item (s : vstate) (it : item) : vstate :=
  match it with
  | IVal z => add_value s z
  | IRange a b => add_range s a b
  | IBool b => add_value s (Z.b2z b)          (* True == 1, False == 0 *)
  end.

(* the body of `for i, column in enumerate(row[1:])` computing `value` *)
Definition cell_value (last : vset) (c : cell) : vset :=
  match c with
  | Ditto => union (VS vs_empty) last         (* value = ValueSet(); value += last_value *)
  | CAny => Any
  | Items l => VS (fold_left add_item l vs_empty)
  end.

(* for _ in range(len(out), len(row) - 1): out.append({}) *)
Definition extend (out : table) (n : nat) : table := out ++ repeat [] (n - length out).

(* out[i][key] = value; last_value = value   for the cells of one row *)
Fixpoint put_row (k : key) (cells : list cell) (last : vset) (out : table) : table :=
  match cells, out with
  | [], _ => out
  | c :: cs, e :: es => let v := cell_value last c in dict_set e k v :: put_row k cs v es
  | _ :: _, [] => []                          (* not reached after `extend` *)
  end.

Definition read_row (out : table) (r : row) : table :=
  put_row (fst r) (snd r) (VS vs_empty) (extend out (length (snd r))).

Definition read_rows (rows : list row) : table := fold_left read_row rows [].
