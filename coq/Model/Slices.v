(* Model of the TWO independent readers of a VC-2 slice (property C08).

   (A) the validator:   vc2_conformance/decoder/transform_data_syntax.py
                        (ld_slice, hq_slice, slice_band, color_diff_slice_band,
                        slice_quantizers, dc_prediction) over decoder/io.py
                        (read_bitb / read_uintb / read_sintb with
                        state["bits_left"], flush_inputb)              -- prefix d_
   (B) the deserialiser: vc2_conformance/bitstream/vc2.py (ld_slice, hq_slice,
                        slice_band, color_diff_slice_band with the clamped
                        slice_y_length) over bitstream/io.py BitstreamReader
                        (bounded_block_begin/end, _bits_remaining which goes
                        NEGATIVE past the end, read_uint, read_sint)   -- prefix s_

   Bits are a `list bool` (the not yet consumed part of the stream).  Reading a
   bit from the empty list is the end-of-file exception of either reader
   (UnexpectedEndOfStream / EOFError).  The exp-golomb `while` loops run on
   explicit fuel (one unit per loop iteration); out of fuel is a distinct
   result excluded by the theorems, and `S (length bits)` is proved sufficient.

   The slice geometry (slice_bytes, slice_left/right/top/bottom), intlog2, mean
   and inverse_quant are NOT modelled here: they come from coq/Gen (regenerated
   from the Python source on every run).  No proofs in this file. *)
From Coq Require Import ZArith List Bool.
From VC2 Require Import Base.PyZ Gen.StateRec Gen.VC2Math Gen.SliceSizes Gen.Quant Gen.ParseCodes.
Import ListNotations.
Open Scope Z_scope.

(* ---- results --------------------------------------------------------------- *)
Inductive err := Eof | OutOfFuel | BadYLen.   (* BadYLen = InvalidSliceYLength *)
Inductive res (A : Type) : Type := Ok (a : A) | Err (e : err).
Arguments Ok {A} a.
Arguments Err {A} e.

Definition bind {A B} (r : res A) (f : A -> res B) : res B :=
  match r with Ok a => f a | Err e => Err e end.
Notation "x <- r ;; k" := (bind r (fun x => k))
  (at level 61, r at next level, right associativity).
Notation "' p <- r ;; k" := (bind r (fun p => k))
  (at level 61, p pattern, r at next level, right associativity).

(* reader state inside a bounded block: (counter, remaining bits).  The counter
   is state["bits_left"] for the decoder and reader._bits_remaining for serdes *)
Definition rstate := (Z * list bool)%type.

(* ---- unbounded bit reads (A.2.3, A.3.3), same in both readers ----------------- *)
Definition read_bit (bs : list bool) : res (bool * list bool) :=
  match bs with [] => Err Eof | b :: r => Ok (b, r) end.

(* decoder/io.py read_nbits:  val <<= 1 ; val += read_bit *)
Fixpoint d_read_nbits_loop (n : nat) (val : Z) (bs : list bool) : res (Z * list bool) :=
  match n with
  | O => Ok (val, bs)
  | S n' => '(b, bs1) <- read_bit bs ;; d_read_nbits_loop n' (py_shl val 1 + b2z b) bs1
  end.
Definition d_read_nbits (n : Z) (bs : list bool) := d_read_nbits_loop (Z.to_nat n) 0 bs.

(* bitstream/io.py read_nbits:  value <<= 1 ; value |= read_bit *)
Fixpoint s_read_nbits_loop (n : nat) (val : Z) (bs : list bool) : res (Z * list bool) :=
  match n with
  | O => Ok (val, bs)
  | S n' => '(b, bs1) <- read_bit bs ;; s_read_nbits_loop n' (Z.lor (py_shl val 1) (b2z b)) bs1
  end.
Definition s_read_nbits (n : Z) (bs : list bool) := s_read_nbits_loop (Z.to_nat n) 0 bs.

(* n single-bit reads, returning the bits (flush_inputb; read_bitarray) *)
Fixpoint take_bits (n : nat) (bs : list bool) : res (list bool * list bool) :=
  match n with
  | O => Ok ([], bs)
  | S n' => '(b, bs1) <- read_bit bs ;; '(t, bs2) <- take_bits n' bs1 ;; Ok (b :: t, bs2)
  end.

(* ---- (A) decoder/io.py bounded reads ------------------------------------------ *)
(* read_bitb: if bits_left == 0: return 1  else: bits_left -= 1; return read_bit *)
Definition d_read_bitb (st : rstate) : res (bool * rstate) :=
  let '(bl, bs) := st in
  if bl =? 0 then Ok (true, st)
  else '(b, r) <- read_bit bs ;; Ok (b, (bl - 1, r)).

(* read_uintb: value = 1; while read_bitb == 0: value <<= 1; if read_bitb: value += 1;  value -= 1 *)
Fixpoint d_read_uintb_loop (fuel : nat) (value : Z) (st : rstate) : res (Z * rstate) :=
  match fuel with
  | O => Err OutOfFuel
  | S f =>
      '(b, st1) <- d_read_bitb st ;;
      if b then Ok (value - 1, st1)
      else
        let value := py_shl value 1 in
        '(b2, st2) <- d_read_bitb st1 ;;
        d_read_uintb_loop f (if b2 then value + 1 else value) st2
  end.
Definition d_read_uintb (fuel : nat) (st : rstate) := d_read_uintb_loop fuel 1 st.

(* read_sintb *)
Definition d_read_sintb (fuel : nat) (st : rstate) : res (Z * rstate) :=
  '(value, st1) <- d_read_uintb fuel st ;;
  if negb (value =? 0) then
    '(b, st2) <- d_read_bitb st1 ;; Ok (if b then - value else value, st2)
  else Ok (value, st1).

(* flush_inputb: while bits_left > 0: read_bit; bits_left -= 1 *)
Definition d_flush_inputb (st : rstate) : res (list bool) :=
  let '(bl, bs) := st in
  '(_, r) <- take_bits (Z.to_nat bl) bs ;; Ok r.

(* ---- (B) bitstream/io.py BitstreamReader inside a bounded block ------------------- *)
(* read_bit: _bits_remaining -= 1; if _bits_remaining <= -1: return 1; else real bit *)
Definition s_read_bit (st : rstate) : res (bool * rstate) :=
  let '(rem, bs) := st in
  let rem := rem - 1 in
  if rem <=? -1 then Ok (true, (rem, bs))
  else '(b, r) <- read_bit bs ;; Ok (b, (rem, r)).

(* read_uint: value = 1; while True: if read_bit: break else: value <<= 1; value += read_bit;  value -= 1 *)
Fixpoint s_read_uint_loop (fuel : nat) (value : Z) (st : rstate) : res (Z * rstate) :=
  match fuel with
  | O => Err OutOfFuel
  | S f =>
      '(b, st1) <- s_read_bit st ;;
      if b then Ok (value - 1, st1)
      else
        let value := py_shl value 1 in
        '(b2, st2) <- s_read_bit st1 ;;
        s_read_uint_loop f (value + b2z b2) st2
  end.
Definition s_read_uint (fuel : nat) (st : rstate) := s_read_uint_loop fuel 1 st.

Definition s_read_sint (fuel : nat) (st : rstate) : res (Z * rstate) :=
  '(value, st1) <- s_read_uint fuel st ;;
  if negb (value =? 0) then
    '(b, st2) <- s_read_bit st1 ;; Ok (if b then - value else value, st2)
  else Ok (value, st1).

(* SerDes.bounded_block_end(target): unused = max(0, _bits_remaining); the unused
   bits are then read (outside any block) into the padding bitarray *)
Definition s_block_end (st : rstate) : res (list bool * list bool) :=
  let '(rem, bs) := st in take_bits (Z.to_nat (Z.max 0 rem)) bs.

(* ---- loops --------------------------------------------------------------------- *)
(* Python range(a, b) *)
Definition zrange (a b : Z) : list Z :=
  map (fun i => a + Z.of_nat i) (seq 0 (Z.to_nat (b - a))).

(* `for a in l: b = step(a)` threading the reader state, collecting results *)
Fixpoint read_many {S A B} (step : A -> S -> res (B * S)) (l : list A) (st : S)
  : res (list B * S) :=
  match l with
  | [] => Ok ([], st)
  | a :: r => '(b, st1) <- step a st ;; '(bs, st2) <- read_many step r st1 ;; Ok (b :: bs, st2)
  end.

Inductive orient := LL | L | H | HL | LH | HH.
Definition orient_code (o : orient) : Z :=
  match o with LL => 0 | L => 1 | H => 2 | HL => 3 | LH => 4 | HH => 5 end.

(* the order in which both ld_slice and hq_slice (and both parsers) visit the
   subbands: (0,LL)/(0,L), the horizontal-only levels, then HL LH HH per level *)
Definition bands (ps : pystate) : list (Z * orient) :=
  if st_dwt_depth_ho ps =? 0 then
    (0, LL) :: flat_map (fun level => [(level, HL); (level, LH); (level, HH)])
                        (zrange 1 (st_dwt_depth ps + 1))
  else
    (0, L) :: map (fun level => (level, H)) (zrange 1 (st_dwt_depth_ho ps + 1))
      ++ flat_map (fun level => [(level, HL); (level, LH); (level, HH)])
                  (zrange (st_dwt_depth_ho ps + 1) (st_dwt_depth_ho ps + st_dwt_depth ps + 1)).

(* everything a slice reader takes from `state` *)
Record sparams := mk_sparams {
  sp_st : pystate;                  (* dimensions, depths, slice counts, slice_bytes fraction, parse code *)
  sp_prefix_bytes : Z;              (* state["slice_prefix_bytes"] *)
  sp_size_scaler : Z;               (* state["slice_size_scaler"] *)
  sp_qm : Z -> orient -> Z          (* state["quant_matrix"][level][orient] *)
}.

(* (13.5.5) slice_quantizers: state["quantizer"][level][orient] = max(qindex - quant_matrix[level][orient], 0) *)
Definition slice_quantizers (p : sparams) (qindex : Z) : Z -> orient -> Z :=
  fun level o => py_max (qindex - sp_qm p level o) 0.

(* one assignment  state[transform][level][orient][y][x] = value *)
Definition slot := (pystr * Z * orient * Z * Z)%type.
Definition write := (slot * Z)%type.

(* ---- (A) decoder slice_band / color_diff_slice_band -------------------------------- *)
Definition d_slice_band (fuel : nat) (ps : pystate) (comp : pystr) (qz : Z -> orient -> Z)
    (sx sy : Z) (band : Z * orient) (st : rstate) : res (list write * rstate) :=
  let '(level, o) := band in
  let qi := qz level o in
  let y1 := slice_top ps sy comp level in
  let y2 := slice_bottom ps sy comp level in
  let x1 := slice_left ps sx comp level in
  let x2 := slice_right ps sx comp level in
  '(rows, st') <- read_many (fun y st =>
      read_many (fun x st =>
        '(val, st1) <- d_read_sintb fuel st ;;
        Ok ((comp, level, o, y, x, inverse_quant val qi), st1)) (zrange x1 x2) st)
    (zrange y1 y2) st ;;
  Ok (concat rows, st').

Definition d_color_diff_slice_band (fuel : nat) (ps : pystate) (qz : Z -> orient -> Z)
    (sx sy : Z) (band : Z * orient) (st : rstate) : res (list write * rstate) :=
  let '(level, o) := band in
  let qi := qz level o in
  let y1 := slice_top ps sy Str_C1 level in
  let y2 := slice_bottom ps sy Str_C1 level in
  let x1 := slice_left ps sx Str_C1 level in
  let x2 := slice_right ps sx Str_C1 level in
  '(rows, st') <- read_many (fun y st =>
      read_many (fun x st =>
        '(val1, st1) <- d_read_sintb fuel st ;;
        '(val2, st2) <- d_read_sintb fuel st1 ;;
        Ok ([(Str_C1, level, o, y, x, inverse_quant val1 qi);
             (Str_C2, level, o, y, x, inverse_quant val2 qi)], st2)) (zrange x1 x2) st)
    (zrange y1 y2) st ;;
  Ok (concat (concat rows), st').

(* the `if dwt_depth_ho == 0 ... else ...` band loops of ld_slice / hq_slice *)
Definition d_comp_bands fuel ps comp qz sx sy (st : rstate) : res (list write * rstate) :=
  '(ws, st') <- read_many (d_slice_band fuel ps comp qz sx sy) (bands ps) st ;; Ok (concat ws, st').
Definition d_chroma_bands fuel ps qz sx sy (st : rstate) : res (list write * rstate) :=
  '(ws, st') <- read_many (d_color_diff_slice_band fuel ps qz sx sy) (bands ps) st ;; Ok (concat ws, st').

(* one bounded block of the decoder: bits_left := len; the bands; flush_inputb *)
Definition d_comp_block fuel ps comp qz sx sy (len : Z) (bs : list bool) : res (list write * list bool) :=
  '(ws, st) <- d_comp_bands fuel ps comp qz sx sy (len, bs) ;;
  r <- d_flush_inputb st ;; Ok (ws, r).
Definition d_chroma_block fuel ps qz sx sy (len : Z) (bs : list bool) : res (list write * list bool) :=
  '(ws, st) <- d_chroma_bands fuel ps qz sx sy (len, bs) ;;
  r <- d_flush_inputb st ;; Ok (ws, r).

(* what the validator computes for one slice *)
Record d_slice_out := mk_d_out {
  d_qindex : Z;
  d_lengths : list Z;      (* LD: [slice_y_length]; HQ: the three length BYTES as read (before * slice_size_scaler) *)
  d_writes : list write;   (* the assignments into y/c1/c2_transform, in program order *)
  d_rest : list bool       (* bits not consumed *)
}.

(* (13.5.3.1) decoder ld_slice *)
Definition d_ld_slice (fuel : nat) (p : sparams) (sx sy : Z) (bs : list bool) : res d_slice_out :=
  let ps := sp_st p in
  let slice_bits_left := 8 * slice_bytes ps sx sy in
  '(qindex, bs) <- d_read_nbits 7 bs ;;
  let slice_bits_left := slice_bits_left - 7 in
  let qz := slice_quantizers p qindex in
  let length_bits := intlog2 (8 * slice_bytes ps sx sy - 7) in
  '(slice_y_length, bs) <- d_read_nbits length_bits bs ;;
  let slice_bits_left := slice_bits_left - length_bits in
  if slice_y_length >? slice_bits_left then Err BadYLen
  else
    '(yw, bs) <- d_comp_block fuel ps Str_Y qz sx sy slice_y_length bs ;;
    let slice_bits_left := slice_bits_left - slice_y_length in
    '(cw, bs) <- d_chroma_block fuel ps qz sx sy slice_bits_left bs ;;
    Ok (mk_d_out qindex [slice_y_length] (yw ++ cw) bs).

(* (13.5.4) decoder hq_slice *)
Definition d_hq_comp fuel (p : sparams) qz sx sy (comp : pystr) (bs : list bool)
  : res ((Z * list write) * list bool) :=
  '(lenb, bs) <- d_read_nbits (8 * 1) bs ;;
  let length := sp_size_scaler p * lenb in
  '(ws, bs) <- d_comp_block fuel (sp_st p) comp qz sx sy (8 * length) bs ;;
  Ok ((lenb, ws), bs).

Definition d_hq_slice (fuel : nat) (p : sparams) (sx sy : Z) (bs : list bool) : res d_slice_out :=
  '(_, bs) <- d_read_nbits (8 * sp_prefix_bytes p) bs ;;
  '(qindex, bs) <- d_read_nbits (8 * 1) bs ;;
  let qz := slice_quantizers p qindex in
  '(cs, bs) <- read_many (d_hq_comp fuel p qz sx sy) [Str_Y; Str_C1; Str_C2] bs ;;
  Ok (mk_d_out qindex (map fst cs) (concat (map snd cs)) bs).

(* slice(): is_ld -> ld_slice, elif is_hq -> hq_slice, else nothing *)
Definition d_slice fuel p sx sy bs : res d_slice_out :=
  if is_ld (sp_st p) then d_ld_slice fuel p sx sy bs
  else if is_hq (sp_st p) then d_hq_slice fuel p sx sy bs
  else Ok (mk_d_out 0 [] [] bs).

(* ---- (B) serdes slice_band / color_diff_slice_band ---------------------------------- *)
Definition s_slice_band (fuel : nat) (ps : pystate) (comp : pystr)
    (sx sy : Z) (band : Z * orient) (st : rstate) : res (list Z * rstate) :=
  let '(level, o) := band in
  let y1 := slice_top ps sy comp level in
  let y2 := slice_bottom ps sy comp level in
  let x1 := slice_left ps sx comp level in
  let x2 := slice_right ps sx comp level in
  '(rows, st') <- read_many (fun y st =>
      read_many (fun x st => s_read_sint fuel st) (zrange x1 x2) st)
    (zrange y1 y2) st ;;
  Ok (concat rows, st').

Definition s_color_diff_slice_band (fuel : nat) (ps : pystate)
    (sx sy : Z) (band : Z * orient) (st : rstate) : res (list Z * rstate) :=
  let '(level, o) := band in
  let y1 := slice_top ps sy Str_C1 level in
  let y2 := slice_bottom ps sy Str_C1 level in
  let x1 := slice_left ps sx Str_C1 level in
  let x2 := slice_right ps sx Str_C1 level in
  '(rows, st') <- read_many (fun y st =>
      read_many (fun x st =>
        '(val1, st1) <- s_read_sint fuel st ;;
        '(val2, st2) <- s_read_sint fuel st1 ;;
        Ok ([val1; val2], st2)) (zrange x1 x2) st)
    (zrange y1 y2) st ;;
  Ok (concat (concat rows), st').

(* bounded_block_begin(len); the bands; bounded_block_end(padding target) *)
Definition s_comp_block fuel ps comp sx sy (len : Z) (bs : list bool)
  : res ((list Z * list bool) * list bool) :=
  '(vs, st) <- read_many (s_slice_band fuel ps comp sx sy) (bands ps) (len, bs) ;;
  '(pad, r) <- s_block_end st ;; Ok ((concat vs, pad), r).
Definition s_chroma_block fuel ps sx sy (len : Z) (bs : list bool)
  : res ((list Z * list bool) * list bool) :=
  '(vs, st) <- read_many (s_color_diff_slice_band fuel ps sx sy) (bands ps) (len, bs) ;;
  '(pad, r) <- s_block_end st ;; Ok ((concat vs, pad), r).

(* what the deserialiser stores for one slice (LDSlice / HQSlice fixeddicts) *)
Record s_slice_out := mk_s_out {
  s_prefix : list bool;              (* HQ prefix_bytes (as bits) *)
  s_qindex : Z;
  s_lengths : list Z;                (* LD: [slice_y_length] AS READ (not clamped); HQ: slice_{y,c1,c2}_length *)
  s_coeffs : list (list Z);          (* LD: [y_transform; c_transform]; HQ: [y; c1; c2] *)
  s_padding : list (list bool);      (* the *_block_padding bit arrays *)
  s_rest : list bool
}.

(* serdes ld_slice: slice_y_length is CLAMPED instead of raising *)
Definition s_ld_slice (fuel : nat) (p : sparams) (sx sy : Z) (bs : list bool) : res s_slice_out :=
  let ps := sp_st p in
  let slice_bits_left := 8 * slice_bytes ps sx sy in
  '(qindex, bs) <- s_read_nbits 7 bs ;;
  let slice_bits_left := slice_bits_left - 7 in
  let length_bits := intlog2 (8 * slice_bytes ps sx sy - 7) in
  '(slice_y_length_read, bs) <- s_read_nbits length_bits bs ;;
  let slice_bits_left := slice_bits_left - length_bits in
  let slice_y_length :=
    if slice_y_length_read >? slice_bits_left then slice_bits_left else slice_y_length_read in
  '(y, bs) <- s_comp_block fuel ps Str_Y sx sy slice_y_length bs ;;
  let slice_bits_left := slice_bits_left - slice_y_length in
  '(c, bs) <- s_chroma_block fuel ps sx sy slice_bits_left bs ;;
  Ok (mk_s_out [] qindex [slice_y_length_read] [fst y; fst c] [snd y; snd c] bs).

Definition s_hq_comp fuel (p : sparams) sx sy (comp : pystr) (bs : list bool)
  : res ((Z * (list Z * list bool)) * list bool) :=
  '(lenb, bs) <- s_read_nbits (1 * 8) bs ;;
  let length := sp_size_scaler p * lenb in
  '(r, bs) <- s_comp_block fuel (sp_st p) comp sx sy (8 * length) bs ;;
  Ok ((lenb, r), bs).

Definition s_hq_slice (fuel : nat) (p : sparams) (sx sy : Z) (bs : list bool) : res s_slice_out :=
  '(prefix, bs) <- take_bits (Z.to_nat (sp_prefix_bytes p * 8)) bs ;;
  '(qindex, bs) <- s_read_nbits (1 * 8) bs ;;
  '(cs, bs) <- read_many (s_hq_comp fuel p sx sy) [Str_Y; Str_C1; Str_C2] bs ;;
  Ok (mk_s_out prefix qindex (map fst cs) (map (fun c => fst (snd c)) cs)
               (map (fun c => snd (snd c)) cs) bs).

Definition s_slice fuel p sx sy bs : res s_slice_out :=
  if is_ld (sp_st p) then s_ld_slice fuel p sx sy bs
  else if is_hq (sp_st p) then s_hq_slice fuel p sx sy bs
  else Ok (mk_s_out [] 0 [] [] [] bs).

(* ---- dequantising what the deserialiser stored (the comparison the property makes) ----- *)
Definition band_slots (ps : pystate) (comp : pystr) (sx sy : Z) (band : Z * orient) : list slot :=
  let '(level, o) := band in
  flat_map (fun y => map (fun x => (comp, level, o, y, x))
                         (zrange (slice_left ps sx comp level) (slice_right ps sx comp level)))
           (zrange (slice_top ps sy comp level) (slice_bottom ps sy comp level)).
Definition comp_slots ps comp sx sy : list slot := flat_map (band_slots ps comp sx sy) (bands ps).
Definition chroma_band_slots (ps : pystate) (sx sy : Z) (band : Z * orient) : list slot :=
  let '(level, o) := band in
  flat_map (fun y => flat_map (fun x => [(Str_C1, level, o, y, x); (Str_C2, level, o, y, x)])
                              (zrange (slice_left ps sx Str_C1 level) (slice_right ps sx Str_C1 level)))
           (zrange (slice_top ps sy Str_C1 level) (slice_bottom ps sy Str_C1 level)).
Definition chroma_slots ps sx sy : list slot := flat_map (chroma_band_slots ps sx sy) (bands ps).

Definition slot_level_orient (s : slot) : Z * orient := let '(_, level, o, _, _) := s in (level, o).
Definition dequant (qz : Z -> orient -> Z) (slots : list slot) (vals : list Z) : list write :=
  map (fun sv => (fst sv, inverse_quant (snd sv) (let '(l, o) := slot_level_orient (fst sv) in qz l o)))
      (combine slots vals).

(* the slots of a whole slice, in the order the coefficient lists of s_coeffs are concatenated *)
Definition slice_slots (p : sparams) (sx sy : Z) : list slot :=
  let ps := sp_st p in
  if is_ld ps then comp_slots ps Str_Y sx sy ++ chroma_slots ps sx sy
  else if is_hq ps then comp_slots ps Str_Y sx sy ++ comp_slots ps Str_C1 sx sy ++ comp_slots ps Str_C2 sx sy
  else [].

Definition s_dequantised (p : sparams) (sx sy : Z) (o : s_slice_out) : list write :=
  dequant (slice_quantizers p (s_qindex o)) (slice_slots p sx sy) (concat (s_coeffs o)).

(* ---- whole transform_data / fragment_data: the slices one after another ------------------ *)
(* for sy in range(slices_y): for sx in range(slices_x) *)
Definition slice_coords (ps : pystate) : list (Z * Z) :=
  flat_map (fun sy => map (fun sx => (sx, sy)) (zrange 0 (st_slices_x ps))) (zrange 0 (st_slices_y ps)).
(* fragment_data: slice s of the fragment *)
Definition fragment_coords (ps : pystate) (x_offset y_offset count : Z) : list (Z * Z) :=
  map (fun s => (py_mod (y_offset * st_slices_x ps + x_offset + s) (st_slices_x ps),
                 py_div (y_offset * st_slices_x ps + x_offset + s) (st_slices_x ps)))
      (zrange 0 count).

Definition d_slices fuel p (coords : list (Z * Z)) (bs : list bool) : res (list d_slice_out * list bool) :=
  read_many (fun c bs => o <- d_slice fuel p (fst c) (snd c) bs ;; Ok (o, d_rest o)) coords bs.
Definition s_slices fuel p (coords : list (Z * Z)) (bs : list bool) : res (list s_slice_out * list bool) :=
  read_many (fun c bs => o <- s_slice fuel p (fst c) (snd c) bs ;; Ok (o, s_rest o)) coords bs.

(* ---- (13.4) dc_prediction on a 2D array (list of rows), in place, raster order ------------ *)
Definition nthZ (l : list Z) (i : Z) : Z := nth (Z.to_nat i) l 0.
(* one row: `prev` is the already predicted row above (None for y = 0) *)
Fixpoint dc_row (prev : option (list Z)) (x : Z) (left : Z) (row : list Z) : list Z :=
  match row with
  | [] => []
  | v :: r =>
      let prediction :=
        match prev with
        | Some up => if x >? 0 then mean [left; nthZ up (x - 1); nthZ up x] else nthZ up 0
        | None => if x >? 0 then left else 0
        end in
      let v' := v + prediction in
      v' :: dc_row prev (x + 1) v' r
  end.
Fixpoint dc_rows (prev : option (list Z)) (rows : list (list Z)) : list (list Z) :=
  match rows with
  | [] => []
  | row :: r => let row' := dc_row prev 0 0 row in row' :: dc_rows (Some row') r
  end.
Definition dc_prediction (band : list (list Z)) : list (list Z) := dc_rows None band.

(* convenience for the correspondence runs: canonical fuel *)
Definition fuel_for (bs : list bool) : nat := S (length bs).
