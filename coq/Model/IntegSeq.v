(* Model/IntegSeq.v -- glue MODELS for the integration theorem C03_structure (no proofs here):
   1. the validator model's pattern automata (abstract in Model/Stream.v) instantiated with the C18
      Matcher model (Model/Matcher.v, Directed = repaired code);
   2. the mapping from Model/Stream.v data units to C07's sequence descriptions (Model/Autofill.v);
   3. encoder/sequence.py make_sequence at data-unit level: picture data units (Model/EncoderSeq.v
      frag_split) -> make_matching_sequence (Model/MatchSeq.v make_seq) -> data_unit_makers ->
      autofill (picture numbers, major_version = C07's seq_version, parse offsets). *)
From Coq Require Import ZArith List Bool.
From VC2 Require Import Base.PyZ Gen.Version Model.Regex Model.NFA Model.Matcher Model.MatchSeq
  Model.EncoderSeq Model.Stream.
From VC2 Require Model.Autofill Model.AutofillSpec.
Import ListNotations.
Open Scope Z_scope.
Module AF := VC2.Model.Autofill.
Module AS := VC2.Model.AutofillSpec.

(* ---------------------------------------------------------------- 1. patterns *)
(* the eight parse-code names numbered in sorted (string) order -- the order sorted() uses in
   make_matching_sequence for symbols outside symbol_priority *)
Definition sym_num (s : symbol) : sym :=
  match s with
  | SAux => 1 | SEos => 2 | SHqPic => 3 | SHqFrag => 4 | SLdPic => 5 | SLdFrag => 6 | SPad => 7 | SSeqHdr => 8
  end.
Definition num_sym (z : sym) : option symbol :=
  if z =? 1 then Some SAux else if z =? 2 then Some SEos else if z =? 3 then Some SHqPic
  else if z =? 4 then Some SHqFrag else if z =? 5 then Some SLdPic else if z =? 6 then Some SLdFrag
  else if z =? 7 then Some SPad else if z =? 8 then Some SSeqHdr else None.

(* "sequence_header .* end_of_sequence" *)
Definition generic_tokens : list token := [TStr 8; TDot; TMod MStar; TStr 2].
Definition generic_re : re := Cat (Sym 8) (Cat (Star Any) (Sym 2)).

(* a pattern in which neither the name end_of_sequence, nor the wildcard, nor `$` occurs *)
Fixpoint no_eos_sym (r : re) : bool :=
  match r with
  | Empty => true
  | Sym s => negb (s =? 2)
  | Any | Eos => false
  | Cat a b | Alt a b => no_eos_sym a && no_eos_sym b
  | Star a => no_eos_sym a
  end.
(* ... followed by the name end_of_sequence: the shape of every level pattern but level 0's `.*` *)
Fixpoint ends_with_eos (r : re) : bool :=
  match r with
  | Sym s => s =? 2
  | Cat a b => no_eos_sym a && ends_with_eos b
  | _ => false
  end.

(* a Matcher as a deterministic automaton over parse-code symbols: state = the Matcher,
   step = match_symbol (None when it returns False), complete = is_complete *)
Definition mstep (m : matcher) (s : symbol) : option matcher :=
  match match_symbol m (sym_num s) with (true, m') => Some m' | (false, _) => None end.
Definition gstart_m : matcher := new_matcher Directed generic_re.

Section Levels.
  (* LEVEL_SEQUENCE_RESTRICTIONS[level].sequence_restriction_regex, parsed *)
  Variable lvl_re : Z -> re.
  Definition lstart_m (l : Z) : matcher := new_matcher Directed (lvl_re l).
  Definition lstep_m (l : Z) : matcher -> symbol -> option matcher := mstep.
  Definition lcomplete_m (l : Z) : matcher -> bool := is_complete.

  (* Model/Stream.v with both automata instantiated *)
  Definition Mgeneric_ok : list dunit -> bool := generic_pattern_ok matcher gstart_m mstep is_complete.
  Definition Mlevel_ok : list dunit -> bool := level_pattern_ok matcher lstart_m lstep_m lcomplete_m.
  Definition Mrules_ok : list dunit -> bool :=
    rules_ok matcher gstart_m mstep is_complete matcher lstart_m lstep_m lcomplete_m.
  Definition Mrun (level_known : Z -> bool) : list dunit -> verdict :=
    run matcher gstart_m mstep is_complete matcher lstart_m lstep_m lcomplete_m level_known false.
End Levels.

(* ---------------------------------------------------------------- 2. Stream units -> C07 descriptions *)
Definition to_af_tp (tp : tparams) : AF.tparams :=
  AF.mk_tp (Some (tp_wi tp))
           (Some (AF.mk_etp (Some true) (Some (tp_wi_ho tp)) (Some true) (Some (tp_depth_ho tp)))).
Definition no_tp : AF.tparams := AF.mk_tp None None.
(* sh: the video-parameter preset fields of the sequence header (which Model/Stream.v abstracts to
   h_pvmin); profile from the Stream header; major_version to be filled in *)
Definition to_af_hdr (sh : AF.seqhdr) (h : hdr) : AF.seqhdr :=
  AF.mk_seqhdr AF.Auto (Some (h_profile h)) (AF.sh_frame_rate sh) (AF.sh_signal_range sh) (AF.sh_color_spec sh)
               (AF.sh_color_primaries sh) (AF.sh_color_matrix sh) (AF.sh_transfer_function sh).
Definition to_af_kind (sh : AF.seqhdr) (k : kind) (len : Z) : AF.dunit :=
  let pc := Some (symbol_code (kind_symbol k)) in
  match k with
  | KSeqHdr h => AF.mk_dunit pc AF.Auto AF.Auto (to_af_hdr sh h) AF.Omitted no_tp AF.Omitted None no_tp None None len
  | KPic _ n tp => AF.mk_dunit pc AF.Auto AF.Auto sh (AF.Explicit n) (to_af_tp tp) AF.Omitted None no_tp None None len
  | KFragFirst _ n tp => AF.mk_dunit pc AF.Auto AF.Auto sh AF.Omitted no_tp (AF.Explicit n) (Some 0) (to_af_tp tp) None None len
  | KFragData _ n c _ _ => AF.mk_dunit pc AF.Auto AF.Auto sh AF.Omitted no_tp (AF.Explicit n) (Some c) no_tp None None len
  | KPad => AF.mk_dunit pc AF.Auto AF.Auto sh AF.Omitted no_tp AF.Omitted None no_tp None (Some (len - 13)) len
  | KAux => AF.mk_dunit pc AF.Auto AF.Auto sh AF.Omitted no_tp AF.Omitted None no_tp (Some (len - 13)) None len
  | KEos => AF.mk_dunit pc AF.Auto AF.Auto sh AF.Omitted no_tp AF.Omitted None no_tp None None len
  end.
Definition to_af (sh : AF.seqhdr) (u : dunit) : AF.dunit := to_af_kind sh (u_kind u) (u_len u).

(* what Model/Stream.v calls h_pvmin, computed from the preset fields the way the VALIDATOR logs them
   (AutofillSpec.val_header_logs without its first entry, the profile) *)
Definition hdr_pvmin (d : AF.defaults) (sh : AF.seqhdr) : Z :=
  AS.lmax MINIMUM_MAJOR_VERSION (tl (AS.val_header_logs d sh)).

(* the major_version autofill_major_version writes into the headers of the sequence *)
Definition autofilled_version (d : AF.defaults) (sh : AF.seqhdr) (ks : list kind) : Z :=
  AF.seq_version d (map (fun k => to_af_kind sh k 0) ks).

(* KFragData is BY DEFINITION a fragment with fragment_slice_count <> 0 *)
Definition frag_counts_nonzero (us : list dunit) : Prop :=
  Forall (fun u => match u_kind u with KFragData _ _ c _ _ => c <> 0 | _ => True end) us.

(* ---------------------------------------------------------------- 3. make_sequence *)
Definition is_picfrag_kind (k : kind) : bool := is_picture_kind k || is_fragment_kind k.

(* [du["parse_info"]["parse_code"].name for du in pictures_only_sequence["data_units"]] *)
Definition picture_names (pks : list kind) : list sym := map (fun k => sym_num (kind_symbol k)) pks.

(* make_matching_sequence(names, "sequence_header .* end_of_sequence", <level regex>, *data_unit_patterns,
                          symbol_priority=["padding_data", "sequence_header"])      (depth_limit default 3) *)
Definition MS_DEPTH_LIMIT : Z := 3.
Definition MS_PRIORITY : list sym := [7; 8].
Definition make_sequence_names (fuel : nat) (lvl_re : Z -> re) (extra : list re) (level : Z) (pks : list kind) : result :=
  make_seq fuel (picture_names pks) (generic_re :: lvl_re level :: extra) MS_DEPTH_LIMIT MS_PRIORITY.

(* [data_unit_makers[name]() for name in required_data_unit_names]: the four fixed makers, and -- only if
   there is a picture data unit, and only under the parse-code name `pc` of the FIRST one -- `pop(0)` of the
   picture data units.  None = KeyError (unknown name) / IndexError (pop from empty list). *)
Fixpoint weave (h : hdr) (pc : option symbol) (out : list sym) (pks : list kind) : option (list kind) :=
  match out with
  | [] => Some []
  | z :: r =>
      match num_sym z with
      | None => None
      | Some SSeqHdr => option_map (cons (KSeqHdr h)) (weave h pc r pks)
      | Some SEos => option_map (cons KEos) (weave h pc r pks)
      | Some SAux => option_map (cons KAux) (weave h pc r pks)
      | Some SPad => option_map (cons KPad) (weave h pc r pks)
      | Some s =>
          if match pc with Some p => symbol_eqb p s | None => false end
          then match pks with
               | k :: pks' => option_map (cons k) (weave h pc r pks')
               | [] => None
               end
          else None
      end
  end.

Definition first_symbol (pks : list kind) : option symbol :=
  match pks with k :: _ => Some (kind_symbol k) | [] => None end.

(* autofill_major_version: every sequence header gets the version computed over the whole sequence *)
Definition with_major (v : Z) (h : hdr) : hdr := mkHdr (h_id h) v (h_profile h) (h_level h) (h_pcm h) (h_pvmin h).
Definition set_major (v : Z) (k : kind) : kind := match k with KSeqHdr h => KSeqHdr (with_major v h) | _ => k end.

(* autofill_parse_offsets(+_finalize): previous = length of the previous data unit (0 for the first),
   next = own length, 0 for the end of sequence *)
Fixpoint fill_offsets (prev : Z) (kl : list (kind * Z)) : list dunit :=
  match kl with
  | [] => []
  | (k, len) :: r => mkUnit k len (if is_eos_kind k then 0 else len) prev :: fill_offsets len r
  end.

(* make_sequence + autofill, at data-unit level.  Inputs: h = the sequence header make_sequence_header_data_unit
   builds (id, profile, level, picture coding mode, h_pvmin; its h_major is overwritten), sh = its preset
   fields, pks = the picture data units of all pictures in order (make_picture_data_units: one picture unit,
   or first fragment + Model/EncoderSeq.v frag_split), carrying the picture numbers, lens = the serialised
   lengths of the resulting data units. *)
Definition make_sequence_kinds (fuel : nat) (lvl_re : Z -> re) (extra : list re) (d : AF.defaults) (sh : AF.seqhdr)
           (h : hdr) (pks : list kind) : option (list kind) :=
  match make_sequence_names fuel lvl_re extra (h_level h) pks with
  | Seq out =>
      match weave h (first_symbol pks) out pks with
      | Some ks => Some (map (set_major (autofilled_version d sh ks)) ks)
      | None => None
      end
  | _ => None
  end.
Definition make_sequence_units (fuel : nat) (lvl_re : Z -> re) (extra : list re) (d : AF.defaults) (sh : AF.seqhdr)
           (h : hdr) (pks : list kind) (lens : list Z) : option (list dunit) :=
  option_map (fun ks => fill_offsets 0 (combine ks lens)) (make_sequence_kinds fuel lvl_re extra d sh h pks).
