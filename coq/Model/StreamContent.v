(* Model/StreamContent.v -- the validator/decoder's OUTPUT with picture CONTENT (C10).

   Model/Stream.v is used unchanged.  Here a data unit additionally carries an opaque payload and
   every completed picture is output as (picture number, content), where

       content = decode sstate payload

   for an ARBITRARY function `decode` (Section variable) of
     - the payload of the data unit that completes the picture, and
     - `sstate : seq_state`, the sequence-local state: the stream-level state of Model/Stream.v
       (which abstracts 24 non-retained State entries) together with the complete list of data
       units (with payloads) of the CURRENT sequence consumed so far, in order.  Every other
       non-retained entry of the Python `State` (video parameters and picture dimensions from the
       sequence header; transform parameters, quantisation matrix, coefficient arrays, fragment
       bookkeeping and the picture under construction from the picture / fragment payloads) is a
       deterministic function of those data units PROVIDED it is absent at the start of the sequence
       -- which is what reset_state does for every entry that is not in retained_state_fields.  The
       payloads of the fragments of a fragmented picture, in order, are a sub-list of that history.

   reset_state is modelled field by field from the REGENERATED list Gen.StateFields.
   retained_state_fields (tie T): `reset_seq` keeps a component of the sequence-local state iff the
   State entry it abstracts is in that list.  That the result is the initial state is a lemma
   (Proofs/StreamContentProofs.v: reset_seq_is_init), so retaining one more field in the source makes
   either that lemma or the correspondence run fail.  No proofs in this file. *)
From Coq Require Import ZArith List Bool String.
From VC2 Require Import Base.PyZ Gen.StateFields Model.Stream.
Import ListNotations.
Open Scope Z_scope.

Definition str_mem (l : list string) (x : string) : bool := existsb (String.eqb x) l.

(* ---- the State entries, partitioned (names as in vc2_conformance/pseudocode/state.py) *)
(* retained by reset_state: I/O plumbing only.  In the model: the not yet consumed data units
   ("_file", "next_bit", "current_byte"), the output list ("_output_picture_callback");
   "_recorded_bytes" only exists while a sequence header is being read. *)
Definition retained_io_entries : list string :=
  [ "_output_picture_callback"; "next_bit"; "current_byte"; "_file"; "_recorded_bytes" ]%string.
(* abstracted by the fields of Model/Stream.v's vstate *)
Definition stream_state_entries : list string :=
  [ "next_parse_offset"; "_last_parse_info_offset"; "_generic_sequence_matcher"; "_level_sequence_matcher";
    "profile"; "major_version"; "level"; "picture_coding_mode"; "_expected_major_version";
    "_last_sequence_header_bytes"; "_last_sequence_header_offset"; "_level_constrained_values";
    "_last_picture_number"; "_last_picture_number_offset"; "_num_pictures_in_sequence";
    "_fragment_slices_remaining"; "fragment_slices_received"; "_picture_initial_fragment_offset";
    "fragmented_picture_done"; "slices_x"; "slices_y"; "picture_number"; "parse_code"; "previous_parse_offset" ]%string.
(* functions of the sequence header(s) consumed so far in this sequence *)
Definition header_derived_entries : list string :=
  [ "video_parameters"; "minor_version"; "luma_width"; "luma_height"; "color_diff_width"; "color_diff_height";
    "luma_depth"; "color_diff_depth" ]%string.
(* functions of the picture / fragment data units consumed so far in this sequence *)
Definition picture_derived_entries : list string :=
  [ "wavelet_index"; "dwt_depth"; "wavelet_index_ho"; "dwt_depth_ho"; "slice_bytes_numerator";
    "slice_bytes_denominator"; "slice_prefix_bytes"; "slice_size_scaler"; "quant_matrix"; "quantizer";
    "y_transform"; "c1_transform"; "c2_transform"; "fragment_data_length"; "fragment_slice_count";
    "fragment_x_offset"; "fragment_y_offset"; "current_picture"; "bits_left" ]%string.
Definition seq_state_entries : list string :=
  (stream_state_entries ++ header_derived_entries ++ picture_derived_entries)%list.

(* reset_state on one entry: `del state[key]` unless key is retained *)
Definition reset_entry {A : Type} (name : string) (old init : A) : A :=
  if str_mem retained_state_fields name then old else init.

Section Content.
  Variable gst : Type.
  Variable gstart : gst.
  Variable gstep : gst -> symbol -> option gst.
  Variable gcomplete : gst -> bool.
  Variable lst : Type.
  Variable lstart : Z -> lst.
  Variable lstep : Z -> lst -> symbol -> option lst.
  Variable lcomplete : Z -> lst -> bool.
  Variable level_known : Z -> bool.
  Variable pinned : bool.

  Variable payload : Type.
  Variable content : Type.

  (* a data unit with its payload *)
  Record cunit := mkCU { cu_unit : dunit; cu_payload : payload }.

  (* the sequence-local state: everything reset_state does not retain *)
  Record seq_state := mkSS {
    ss_stream : vstate gst lst;      (* stream_state_entries *)
    ss_seen : list cunit             (* data units of the current sequence consumed so far:
                                        header_derived_entries and picture_derived_entries are functions of it *)
  }.

  Variable decode : seq_state -> payload -> content.

  Definition init_seq : seq_state := mkSS (init_state gst gstart lst) [].

  (* reset_state followed by the three unconditional assignments at the top of parse_sequence
     (_generic_sequence_matcher, _num_pictures_in_sequence, _fragment_slices_remaining) *)
  Definition reset_seq (st : seq_state) : seq_state :=
    let s := ss_stream st in
    mkSS
      (mkV (mkP (reset_entry "_last_parse_info_offset" (p_prev_len (vp s)) None)
                (reset_entry "next_parse_offset" (p_npo (vp s)) None))
           (mkH (reset_entry "_last_sequence_header_bytes" (s_last_hdr (vh s)) None)
                (reset_entry "profile" (s_profile (vh s)) None)
                (reset_entry "major_version" (s_major (vh s)) None)
                (reset_entry "picture_coding_mode" (s_pcm (vh s)) None)
                (reset_entry "_expected_major_version" (s_expected_major (vh s)) None))
           (mkN (reset_entry "_last_picture_number" (n_last_picnum (vn s)) None) 0)
           (mkF 0
                (reset_entry "fragment_slices_received" (f_received (vf s)) None)
                (reset_entry "_picture_initial_fragment_offset" (f_init_offset (vf s)) false)
                (reset_entry "slices_x" (f_slices_x (vf s)) None)
                (reset_entry "slices_y" (f_slices_y (vf s)) None))
           (mkM gstart (reset_entry "_level_sequence_matcher" (m_lvl (vm s)) None)))
      (* header- and picture-derived entries: kept only if EVERY one of them were retained *)
      (if forallb (str_mem retained_state_fields) (header_derived_entries ++ picture_derived_entries)
       then ss_seen st else []).

  Definition out_item := (Z * content)%type.

  (* parse_stream with the output callback: verdict, number of sequences gone through (index of the
     sequence in which the verdict was reached), pictures output as (number, content) *)
  Fixpoint crun_from (fresh : bool) (st : seq_state) (us : list cunit) (i : Z) (out : list out_item)
    : verdict * Z * list out_item :=
    match us with
    | [] => (if fresh then Accept else eof_in_sequence gst lst (ss_stream st), i, out)
    | u :: rest =>
        match step gst gstep gcomplete lst lstart lstep lcomplete level_known pinned
                   (ss_stream st) (cu_unit u) (map cu_unit rest) with
        | Fail v => (v, i, out)
        | SeqDone => crun_from true (reset_seq (mkSS (ss_stream st) (ss_seen st ++ [u]))) rest (i + 1) out
        | Continue s' =>
            let st' := mkSS s' (ss_seen st ++ [u]) in
            let done :=
              match u_kind (cu_unit u) with
              | KPic _ n _ => Some n
              | KFragData _ n _ _ _ => if f_remaining (vf s') =? 0 then Some n else None
              | _ => None
              end in
            crun_from false st' rest i
              (match done with
               | Some n => out ++ [(n, decode (mkSS s' (ss_seen st)) (cu_payload u))]
               | None => out
               end)
        end
    end.

  Definition crun (us : list cunit) : verdict * Z * list out_item := crun_from true init_seq us 0 [].
  Definition cverdict (us : list cunit) : verdict := fst (fst (crun us)).
  Definition coutput (us : list cunit) : list out_item := snd (crun us).

  (* the payloads of the fragments of the picture in progress, in order (a function of ss_seen):
     everything since the last first-fragment *)
  Fixpoint fragments_in_progress (seen : list cunit) (acc : list payload) : list payload :=
    match seen with
    | [] => acc
    | u :: r =>
        match u_kind (cu_unit u) with
        | KFragFirst _ _ _ => fragments_in_progress r [cu_payload u]
        | KFragData _ _ _ _ _ => fragments_in_progress r (acc ++ [cu_payload u])
        | KPic _ _ _ => fragments_in_progress r []
        | _ => fragments_in_progress r acc
        end
    end.
End Content.
Arguments cu_unit {payload} _.
Arguments cu_payload {payload} _.
Arguments mkCU {payload} _ _.
Arguments ss_stream {gst lst payload} _.
Arguments ss_seen {gst lst payload} _.
Arguments mkSS {gst lst payload} _ _.
