(* Model of the level-dependent choices the picture encoder makes
   (vc2_conformance/encoder/pictures.py decide_extended_transform_flag,
   make_extended_transform_parameters) and of autofill's major_version
   (bitstream/vc2_autofill.py autofill_major_version) for the streams the encoder makes.
   No proofs here (Proofs/LevelChoicesProofs.v). *)
From Coq Require Import ZArith List Bool.
From VC2 Require Import Base.PyZ Gen.Version Model.SeqHeader.
Import ListNotations.
Open Scope Z_scope.

Definition bz (b : bool) : Z := if b then 1 else 0.

(* allowed_values_for(LEVEL_CONSTRAINTS, key, constrained_values): the union over the columns
   admitting the constrained values; here as a membership predicate *)
Definition allowed_for (tbl : ctable) (cv : list kv) (key : ckey) (v : Z) : bool :=
  existsb (fun c => c key v) (filter_table tbl cv).

(* decide_extended_transform_flag.
   permitted: membership in the ValueSet returned by allowed_values_for;
   is_empty:  that ValueSet == ValueSet()  (then `False` is added: the "slight bodge");
   required:  the flag must be True.
   None = IncompatibleLevelAndExtendedTransformParametersError *)
Definition decide_extended_transform_flag (permitted : Z -> bool) (is_empty : bool) (required : bool) : option bool :=
  let usable := if required then [true] else [false; true] in
  find (fun f => permitted (bz f) || (is_empty && negb f)) usable.

Record etp := mkEtp {
  etp_index_flag : bool; etp_wavelet_index_ho : option Z;
  etp_flag : bool; etp_dwt_depth_ho : option Z
}.

(* make_extended_transform_parameters (with fixes/C16-etp-values.diff: a coded wavelet_index_ho /
   dwt_depth_ho must be allowed by the level, else the same error).
   perm_w / perm_d: membership in allowed_values_for(.., "wavelet_index_ho" / "dwt_depth_ho", ..) *)
Definition make_extended_transform_parameters
    (perm_i : Z -> bool) (empty_i : bool) (perm_a : Z -> bool) (empty_a : bool)
    (perm_w perm_d : Z -> bool)
    (wavelet_index wavelet_index_ho dwt_depth_ho : Z) : option etp :=
  match decide_extended_transform_flag perm_i empty_i (negb (wavelet_index =? wavelet_index_ho)) with
  | None => None
  | Some fi =>
    if fi && negb (perm_w wavelet_index_ho) then None else
    match decide_extended_transform_flag perm_a empty_a (negb (dwt_depth_ho =? 0)) with
    | None => None
    | Some fa =>
        if fa && negb (perm_d dwt_depth_ho) then None else
        Some (mkEtp fi (if fi then Some wavelet_index_ho else None)
                    fa (if fa then Some dwt_depth_ho else None))
    end
  end.

(* the (key, value) pairs the decoder checks in extended_transform_parameters (12.4.4.1) *)
Definition coded_etp (e : etp) : list kv :=
  (K_asym_transform_index_flag, bz (etp_index_flag e))
  :: (match etp_wavelet_index_ho e with Some w => [(K_wavelet_index_ho, w)] | None => [] end)
  ++ (K_asym_transform_flag, bz (etp_flag e))
  :: (match etp_dwt_depth_ho e with Some d => [(K_dwt_depth_ho, d)] | None => [] end).

(* the transform the decoder reconstructs from the coded parameters (12.4.1: defaults
   wavelet_index_ho = wavelet_index, dwt_depth_ho = 0) *)
Definition decoded_wavelet_index_ho (wavelet_index : Z) (e : etp) : Z :=
  match etp_wavelet_index_ho e with Some w => w | None => wavelet_index end.
Definition decoded_dwt_depth_ho (e : etp) : Z :=
  match etp_dwt_depth_ho e with Some d => d | None => 0 end.

(* autofill_major_version for a sequence the encoder makes: the maximum of the version
   implications (version_constraints.py, translated in Gen/Version.v) of the picture parse
   codes (fragments), the profile, the presets used by the sequence header and the transform *)
Definition zmax_list (l : list Z) : Z := fold_right Z.max 1 l.

Definition group_index_implication (f : Z -> Z) (g : gopt) : Z :=
  match g with
  | GDefault => 1
  | GPreset i => f i
  | GExplicit _ => f 0
  end.
(* ColorPrimaries / ColorMatrix / TransferFunction: {flag: True, index: v} is GExplicit [v] *)
Definition nested_index_implication (f : Z -> Z) (g : gopt) : Z :=
  match g with
  | GExplicit [v] => f v
  | _ => 1
  end.

Definition header_version (h : header) : Z :=
  let sp := h_src h in
  zmax_list [
    profile_version_implication (h_profile h);
    group_index_implication preset_frame_rate_version_implication (sp_frame_rate sp);
    group_index_implication preset_signal_range_version_implication (sp_signal sp);
    match sp_color sp with
    | CSDefault => 1
    | CSPreset i => preset_color_spec_version_implication i
    | CSCustom p m t =>
        zmax_list [preset_color_spec_version_implication 0;
                   nested_index_implication preset_color_primaries_version_implication p;
                   nested_index_implication preset_color_matrix_version_implication m;
                   nested_index_implication preset_transfer_function_version_implication t]
    end].

Definition autofill_major_version (fragments : bool) (h : header) (wavelet_index : Z) (e : etp) : Z :=
  zmax_list [
    (if fragments then 3 else 1);
    header_version h;
    wavelet_transform_version_implication wavelet_index
      (decoded_wavelet_index_ho wavelet_index e) (decoded_dwt_depth_ho e)].
