(* Model for property C09 (every decoded picture is well formed):

   vc2_conformance/pseudocode/picture_decoding.py  picture_decode, idwt_pad_removal,
       clip_picture / clip_component, offset_picture / offset_component
   vc2_conformance/pseudocode/video_parameters.py  picture_dimensions, video_depth
   vc2_conformance/decoder/stream.py + fragment_syntax.py  the picture_decode call sites and the
       fragment counters (fragment_slices_received, _fragment_slices_remaining, fragmented_picture_done)

   The inverse wavelet transform itself is NOT modelled here (property C11): its output is an
   arbitrary array.  clip / intlog2 come from Gen/VC2Math.v (regenerated from the source).
   No proofs in this file. *)
From Coq Require Import ZArith List Bool.
From VC2 Require Import Base.PyZ Gen.StateRec Gen.VC2Math.
Import ListNotations.
Open Scope Z_scope.

Definition array2 := list (list Z).

(* arrays.py *)
Definition a_height (a : array2) : Z := Z.of_nat (length a).
Definition a_width (a : array2) : Z := match a with [] => 0 | r :: _ => Z.of_nat (length r) end.

(* Python  del l[k:]  (k may be negative: counted from the end) *)
Definition del_from {A} (l : list A) (k : Z) : list A :=
  let k' := if k <? 0 then Z.max 0 (Z.of_nat (length l) + k) else k in
  firstn (Z.to_nat k') l.
Definition delete_rows_after (a : array2) (k : Z) : array2 := del_from a k.
Definition delete_columns_after (a : array2) (k : Z) : array2 := map (fun row => del_from row k) a.

(* (15.4.5) idwt_pad_removal: rows first, then columns; width/height by component *)
Record pdims := mk_pdims { luma_width : Z; luma_height : Z; color_diff_width : Z; color_diff_height : Z;
                           luma_depth : Z; color_diff_depth : Z }.
Definition comp_width (d : pdims) (c : pystr) : Z :=
  match c with Str_Y => luma_width d | _ => color_diff_width d end.
Definition comp_height (d : pdims) (c : pystr) : Z :=
  match c with Str_Y => luma_height d | _ => color_diff_height d end.
Definition comp_depth (d : pdims) (c : pystr) : Z :=
  match c with Str_Y => luma_depth d | _ => color_diff_depth d end.
Definition idwt_pad_removal (d : pdims) (pic : array2) (c : pystr) : array2 :=
  delete_columns_after (delete_rows_after pic (comp_height d c)) (comp_width d c).

(* `for y in range(height(a)): for x in range(width(a)): a[y][x] = f(a[y][x])`
   width(a) = len(a[0]): the first `w` entries of every row are updated *)
Fixpoint map_upto (n : nat) (f : Z -> Z) (row : list Z) : list Z :=
  match n, row with
  | S n', v :: r => f v :: map_upto n' f r
  | _, _ => row
  end.
Definition map_array (f : Z -> Z) (a : array2) : array2 :=
  map (map_upto (Z.to_nat (a_width a)) f) a.

(* (15.5) clip_component / offset_component for a component of the given depth.
   2 ** (depth - 1) is an integer only for depth >= 1 (pow_dom) *)
Definition clip_component (depth : Z) (a : array2) : array2 :=
  map_array (fun v => clip v (- (py_pow 2 (depth - 1))) (py_pow 2 (depth - 1) - 1)) a.
Definition offset_component (depth : Z) (a : array2) : array2 :=
  map_array (fun v => v + py_pow 2 (depth - 1)) a.
Definition depth_dom (depth : Z) : bool := 0 <=? depth - 1.

(* (11.6.2) picture_dimensions, (11.6.3) video_depth.  color_diff_format_index: 0 = 4:4:4, 1 = 4:2:2, 2 = 4:2:0;
   picture_coding_mode: 1 = pictures are fields *)
Definition picture_dimensions (frame_width frame_height cdf pcm : Z) : Z * Z * Z * Z :=
  let lw := frame_width in
  let lh := frame_height in
  let cw := lw in
  let ch := lh in
  let cw := if cdf =? 1 then py_div cw 2 else cw in
  let '(cw, ch) := if cdf =? 2 then (py_div cw 2, py_div ch 2) else (cw, ch) in
  let '(lh, ch) := if pcm =? 1 then (py_div lh 2, py_div ch 2) else (lh, ch) in
  (lw, lh, cw, ch).
Definition video_depth (luma_excursion color_diff_excursion : Z) : Z * Z :=
  (intlog2 (luma_excursion + 1), intlog2 (color_diff_excursion + 1)).
Definition mk_dims (frame_width frame_height cdf pcm luma_excursion color_diff_excursion : Z) : pdims :=
  let '(lw, lh, cw, ch) := picture_dimensions frame_width frame_height cdf pcm in
  let '(ld, cd) := video_depth luma_excursion color_diff_excursion in
  mk_pdims lw lh cw ch ld cd.

(* (15.2) picture_decode after the inverse transform: idwt outputs -> current_picture *)
Record picture := mk_picture { pic_num : Z; pic_Y : array2; pic_C1 : array2; pic_C2 : array2 }.
Definition finish_component (d : pdims) (c : pystr) (idwt_out : array2) : array2 :=
  offset_component (comp_depth d c) (clip_component (comp_depth d c) (idwt_pad_removal d idwt_out c)).
Definition picture_decode (d : pdims) (picture_number : Z) (y c1 c2 : array2) : picture :=
  mk_picture picture_number (finish_component d Str_Y y) (finish_component d Str_C1 c1) (finish_component d Str_C2 c2).

(* ---- the picture_decode call sites: one sequence as a list of data units ----------------------------- *)
Inductive dunit :=
| UPicture (picture_number : Z)                          (* picture_parse *)
| UFragFirst (picture_number : Z) (slices : Z)           (* fragment with fragment_slice_count = 0; slices = slices_x * slices_y *)
| UFragData (picture_number : Z) (slice_count : Z)       (* fragment with fragment_slice_count = slice_count <> 0 *)
| UOther.                                                (* sequence header, auxiliary data, padding *)

Record fstate := mk_fstate {
  fs_picture_number : option Z;       (* state["picture_number"] / _last_picture_number *)
  fs_total : Z;                       (* slices_x * slices_y of the fragmented picture *)
  fs_received : Z;                    (* fragment_slices_received *)
  fs_remaining : Z;                   (* _fragment_slices_remaining *)
  fs_done : bool                      (* fragmented_picture_done *)
}.
Definition fs_init : fstate := mk_fstate None 0 0 0 false.

(* fragment_data: for s in range(count): received += 1; remaining -= 1; if received == slices_x*slices_y: done = True *)
Fixpoint fragment_data_loop (n : nat) (st : fstate) : fstate :=
  match n with
  | O => st
  | S n' =>
      let received := fs_received st + 1 in
      let remaining := fs_remaining st - 1 in
      let done := if received =? fs_total st then true else fs_done st in
      fragment_data_loop n' (mk_fstate (fs_picture_number st) (fs_total st) received remaining done)
  end.

(* one data unit: None = the validator raises (PictureInterleavedWithFragmentedPicture, FragmentedPictureRestarted,
   PictureNumberChangedMidFragmentedPicture, TooManySlicesInFragmentedPicture; a slice-bearing fragment before
   any first fragment is not accepted either).  Some (st', pics) = new state and the picture numbers handed to
   picture_decode by this unit. *)
Definition step (st : fstate) (u : dunit) : option (fstate * list Z) :=
  match u with
  | UOther => Some (st, [])
  | UPicture pn =>
      if negb (fs_remaining st =? 0) then None
      else Some (mk_fstate (Some pn) (fs_total st) (fs_received st) (fs_remaining st) (fs_done st), [pn])
  | UFragFirst pn slices =>
      if negb (fs_remaining st =? 0) then None
      else Some (mk_fstate (Some pn) slices 0 slices false, [])
  | UFragData pn count =>
      match fs_picture_number st with
      | None => None
      | Some last =>
          if negb (last =? pn) then None
          else if count >? fs_remaining st then None
          else
            let st' := fragment_data_loop (Z.to_nat count) st in
            Some (st', if fs_done st' then [pn] else [])
      end
  end.

(* parse_sequence: all units, then SequenceContainsIncompleteFragmentedPicture unless remaining = 0 *)
Fixpoint run_from (st : fstate) (us : list dunit) : option (list Z) :=
  match us with
  | [] => if fs_remaining st =? 0 then Some [] else None
  | u :: r =>
      match step st u with
      | None => None
      | Some (st', pics) =>
          match run_from st' r with
          | None => None
          | Some rest => Some (pics ++ rest)
          end
      end
  end.
Definition run (us : list dunit) : option (list Z) := run_from fs_init us.

(* the coded picture numbers: one per picture data unit and one per fragmented picture (its first fragment) *)
Definition coded_pictures (us : list dunit) : list Z :=
  flat_map (fun u => match u with
                     | UPicture pn => [pn]
                     | UFragFirst pn slices => if 0 <? slices then [pn] else []
                     | _ => []
                     end) us.
