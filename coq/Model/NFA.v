(* Model of vc2_conformance/symbol_re.py, part 2: NFANode / NFA.from_ast.
   Nodes are natural numbers handed out by a fresh-node counter in the order in
   which the code creates NFANode objects.  No proofs in here.

   `add_transition(dest)` with no symbol records an empty transition; which way
   `equivalent_nodes` may follow it is the switch `eps_mode`:
     Symmetric : both ways (the code as pinned: `transitions[None]` is filled on
                 both nodes and followed by `equivalent_nodes`)
     Directed  : only from the node it was added on to `dest` (repaired code:
                 `empty_successors`). *)
From Coq Require Import ZArith List Bool.
From VC2 Require Import Model.Regex.
Import ListNotations.

Inductive label := LSym (s : sym) | LAny | LEos.

Definition lmatch (l : label) (x : letter) : bool :=
  match l, x with
  | LSym s, Real t => Z.eqb s t
  | LAny, Real _ => true
  | LEos, End => true
  | _, _ => false
  end.

Record nfa := mkNFA {
  n_start : nat;
  n_final : nat;
  n_eps : list (nat * nat);            (* empty transitions, in the direction added *)
  n_edges : list (nat * label * nat);  (* transitions[symbol] for symbol not None *)
  n_next : nat                         (* first unused node number *)
}.

(* `cls()` : two new nodes start, final and one labelled transition *)
Definition leaf (l : label) (n : nat) : nfa :=
  mkNFA n (S n) [] [(n, l, S n)] (S (S n)).

(* NFA.from_ast, with `n` the first unused node number *)
Fixpoint build (r : re) (n : nat) : nfa :=
  match r with
  | Empty => mkNFA n n [] [] (S n)
  | Sym s => leaf (LSym s) n
  | Any => leaf LAny n
  | Eos => leaf LEos n
  | Cat a b =>
    let A := build a n in
    let B := build b (n_next A) in
    mkNFA (n_start A) (n_final B)
          ((n_final A, n_start B) :: n_eps A ++ n_eps B)
          (n_edges A ++ n_edges B) (n_next B)
  | Alt a b =>
    let A := build a (S (S n)) in
    let B := build b (n_next A) in
    mkNFA n (S n)
          ((n, n_start A) :: (n, n_start B) :: (n_final A, S n) :: (n_final B, S n)
             :: n_eps A ++ n_eps B)
          (n_edges A ++ n_edges B) (n_next B)
  | Star a =>
    let A := build a (S (S n)) in
    mkNFA n (S n)
          ((n, S n) :: (n, n_start A) :: (n_final A, n_start A) :: (n_final A, S n) :: n_eps A)
          (n_edges A) (n_next A)
  end.

Definition from_ast (r : re) : nfa := build r 0.

Inductive eps_mode := Directed | Symmetric.

Definition swap (e : nat * nat) : nat * nat := (snd e, fst e).

(* the empty transitions `equivalent_nodes` follows *)
Definition eps_of (mode : eps_mode) (N : nfa) : list (nat * nat) :=
  match mode with
  | Directed => n_eps N
  | Symmetric => n_eps N ++ map swap (n_eps N)
  end.
