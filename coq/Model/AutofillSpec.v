(* Independent statements the C07 theorems compare Model/Autofill.v against:
   - what "preserved" means for a data unit,
   - the pointwise numbering and parse-offset rules of the property,
   - what the VALIDATOR requires of major_version (decoder/sequence_header.py, picture_syntax.py,
     stream.py: log_version_lower_bound call sites; assertions.py: assert_major_version_is_minimal),
     built from the same translated Gen/Version.v functions.
   No proofs here. *)
From Coq Require Import ZArith List Bool.
From VC2 Require Import Base.PyZ Gen.StateRec Gen.ParseCodes Gen.Version Gen.Consts Model.Autofill.
Import ListNotations.
Open Scope Z_scope.
Open Scope bool_scope.

(* ---- preservation ------------------------------------------------------------------ *)
Definition af_pres (f f' : afield) : Prop := forall v, f = Explicit v -> f' = Explicit v.
(* extended_transform_parameters may be removed (documented side effect), nothing else *)
Definition tp_pres (t t' : tparams) : Prop :=
  t_wavelet_index t' = t_wavelet_index t /\ (t_etp t' = t_etp t \/ t_etp t' = None).
Definition sh_pres (h h' : seqhdr) : Prop :=
  af_pres (sh_major_version h) (sh_major_version h') /\
  sh_profile h' = sh_profile h /\ sh_frame_rate h' = sh_frame_rate h /\
  sh_signal_range h' = sh_signal_range h /\ sh_color_spec h' = sh_color_spec h /\
  sh_color_primaries h' = sh_color_primaries h /\ sh_color_matrix h' = sh_color_matrix h /\
  sh_transfer_function h' = sh_transfer_function h.
Definition unit_pres (u u' : dunit) : Prop :=
  u_parse_code u' = u_parse_code u /\
  af_pres (u_npo u) (u_npo u') /\ af_pres (u_ppo u) (u_ppo u') /\
  sh_pres (u_sh u) (u_sh u') /\
  af_pres (u_pic_number u) (u_pic_number u') /\ tp_pres (u_pic_tp u) (u_pic_tp u') /\
  af_pres (u_frag_number u) (u_frag_number u') /\
  u_frag_slice_count u' = u_frag_slice_count u /\ tp_pres (u_frag_tp u) (u_frag_tp u') /\
  u_aux_len u' = u_aux_len u /\ u_pad_len u' = u_pad_len u /\ u_len u' = u_len u.

(* the transform a transform_parameters entry codes is symmetric *)
Definition symmetric_tp (d : defaults) (tp : tparams) : Prop :=
  let '(wi, wi_ho, dho) := tp_triple d tp in wi_ho = wi /\ dho = 0.

(* ---- picture numbers ---------------------------------------------------------------- *)
(* number carried by a picture / fragment data unit of the OUTPUT *)
Definition number_of (u : dunit) : option Z :=
  match pn_field u with Explicit v => Some v | _ => None end.
(* number of the closest preceding picture/fragment unit of the same sequence; 2^32-1 when
   there is none, so that the first picture gets 0 *)
Fixpoint last_number (acc : Z) (pre : list dunit) : Z :=
  match pre with
  | [] => acc
  | u :: r => last_number (match number_of u with Some v => v | None => acc end) r
  end.
Definition is_pn_unit (u : dunit) : bool := match pn_kind u with PNOther => false | _ => true end.
(* how many pictures have started (pictures and first fragments) *)
Definition starts (d : defaults) (us : list dunit) : Z :=
  Z.of_nat (length (filter (pn_increment d) us)).
Definition pn_all_auto (us : list dunit) : Prop :=
  forall u, In u us -> is_pn_unit u = true -> is_autoish (pn_field u) = true.

(* ---- parse offsets -------------------------------------------------------------------- *)
Definition padaux_payload (d : defaults) (u : dunit) : option Z :=
  match u_parse_code u with
  | Some pc => if pc =? PC_AUXILIARY_DATA then Some (getd (u_aux_len u) (d_aux_len d))
               else if pc =? PC_PADDING_DATA then Some (getd (u_pad_len u) (d_pad_len d))
               else None
  | None => None
  end.
(* next: explicit value, else 13 + payload for padding/aux, else the distance to the next unit of
   the sequence (= this unit's length), 0 for the last one *)
Definition expected_npo (d : defaults) (u : dunit) (post : list dunit) : afield :=
  match u_npo u with
  | Explicit v => Explicit v
  | _ => match padaux_payload d u with
         | Some n => Explicit (13 + n)
         | None => Explicit (match post with [] => 0 | _ => u_len u end)
         end
  end.
(* previous: explicit value, else the distance from the previous unit of the sequence, 0 for the first *)
Definition expected_ppo (u : dunit) (pre : list dunit) : afield :=
  match u_ppo u with
  | Explicit v => Explicit v
  | _ => Explicit (match rev pre with [] => 0 | p :: _ => u_len p end)
  end.

(* ---- the validator's major_version rules -------------------------------------------------- *)
Definition lmax (m : Z) (l : list Z) : Z := fold_left Z.max l m.

(* a preset entry read by the validator: logged only when the custom flag is set and the index is
   not 0 (index 0 = custom values follow) *)
Definition val_preset (imp : Z -> Z) (o : option Z) : list Z :=
  match o with Some i => if i =? 0 then [] else [imp i] | None => [] end.
(* colour primaries / matrix / transfer function: logged whenever the custom flag is set *)
Definition val_preset_always (imp : Z -> Z) (o : option Z) : list Z :=
  match o with Some i => [imp i] | None => [] end.

(* bounds logged AND checked (`if major_version < bound: raise ...NotSupportedByVersion`) while a
   sequence header is read: parse_parameters, frame_rate, signal_range, color_spec (+ nested) *)
Definition val_header_logs (d : defaults) (h : seqhdr) : list Z :=
  [profile_version_implication (getd (sh_profile h) (d_profile d))] ++
  val_preset preset_frame_rate_version_implication (preset_on (sh_frame_rate h) (d_frame_rate d)) ++
  val_preset preset_signal_range_version_implication (preset_on (sh_signal_range h) (d_signal_range d)) ++
  match preset_on (sh_color_spec h) (d_color_spec d) with
  | Some i =>
      if i =? 0 then
        val_preset_always preset_color_primaries_version_implication (preset_on (sh_color_primaries h) (d_color_primaries d)) ++
        val_preset_always preset_color_matrix_version_implication (preset_on (sh_color_matrix h) (d_color_matrix d)) ++
        val_preset_always preset_transfer_function_version_implication (preset_on (sh_transfer_function h) (d_transfer_function d))
      else [preset_color_spec_version_implication i]
  | None => []
  end.

(* parse_info: the parse code's bound (checked); sequence header: the above *)
Definition val_unit_checked (d : defaults) (u : dunit) : list Z :=
  let pc := eff_parse_code d u in
  parse_code_version_implication pc ::
  (if pc =? PC_SEQUENCE_HEADER then val_header_logs d (u_sh u) else []).

(* transform_parameters is read for pictures and for fragments with fragment_slice_count = 0 *)
Definition val_has_tp (d : defaults) (u : dunit) : bool :=
  let pc := eff_parse_code d u in
  negb (pc =? PC_SEQUENCE_HEADER) &&
  (is_picture_pc pc || (is_fragment_pc pc && (getd (u_frag_slice_count u) (d_frag_slice_count d) =? 0))).
Definition val_tp (d : defaults) (u : dunit) : tparams :=
  if is_picture_pc (eff_parse_code d u) then u_pic_tp u else u_frag_tp u.

(* extended_transform_parameters is only read (and its bound only logged, never checked) when the
   sequence header said major_version >= 3; below that wavelet_index_ho = wavelet_index,
   dwt_depth_ho = 0 and nothing is logged *)
Definition val_unit_etp (d : defaults) (v : Z) (u : dunit) : list Z :=
  if val_has_tp d u && (3 <=? v) then [tp_version d (val_tp d u)] else [].

Definition val_checked (d : defaults) (us : list dunit) : list Z := flat_map (val_unit_checked d) us.
Definition val_logged (d : defaults) (v : Z) (us : list dunit) : list Z :=
  flat_map (fun u => val_unit_checked d u ++ val_unit_etp d v u) us.
(* state["_expected_major_version"] at the end of the sequence *)
Definition val_expected (d : defaults) (v : Z) (us : list dunit) : Z :=
  lmax MINIMUM_MAJOR_VERSION (val_logged d v us).
(* state["_num_pictures_in_sequence"] *)
Definition val_npics (d : defaults) (us : list dunit) : Z :=
  Z.of_nat (length (filter (val_has_tp d) us)).

(* The validator's verdict on the version rules for the sequence `us` coded with every sequence
   header labelled v: MajorVersionTooLow, the eight ...NotSupportedByVersion checks, and
   assert_major_version_is_minimal with its empty-sequence exception. *)
Definition val_version_ok (d : defaults) (v : Z) (us : list dunit) : Prop :=
  MINIMUM_MAJOR_VERSION <= v /\
  (forall f, In f (val_checked d us) -> f <= v) /\
  ((val_npics d us = 0 /\ v = 3) \/ v <= val_expected d v us).

(* a stream labelled v < 3 cannot carry extended_transform_parameters: it represents the
   description only if every transform described is symmetric *)
Definition etp_codable (d : defaults) (v : Z) (us : list dunit) : Prop :=
  3 <= v \/ forall u, In u us -> val_has_tp d u = true -> symmetric_tp d (val_tp d u).

(* ---- the features autofill_major_version looks at (its first loop), as a list ------------------ *)
Definition af_header_feats (d : defaults) (h : seqhdr) : list Z :=
  [profile_version_implication (getd (sh_profile h) (d_profile d))] ++
  val_preset_always preset_frame_rate_version_implication (preset_on (sh_frame_rate h) (d_frame_rate d)) ++
  val_preset_always preset_signal_range_version_implication (preset_on (sh_signal_range h) (d_signal_range d)) ++
  match preset_on (sh_color_spec h) (d_color_spec d) with
  | Some i =>
      [preset_color_spec_version_implication i] ++
      (if i =? 0 then
        val_preset_always preset_color_primaries_version_implication (preset_on (sh_color_primaries h) (d_color_primaries d)) ++
        val_preset_always preset_color_matrix_version_implication (preset_on (sh_color_matrix h) (d_color_matrix d)) ++
        val_preset_always preset_transfer_function_version_implication (preset_on (sh_transfer_function h) (d_transfer_function d))
       else [])
  | None => []
  end.
Definition af_unit_feats (d : defaults) (u : dunit) : list Z :=
  let pc := eff_parse_code d u in
  parse_code_version_implication pc ::
  (if pc =? PC_SEQUENCE_HEADER then af_header_feats d (u_sh u)
   else match get_tp d u with Some tp => [tp_version d tp] | None => [] end).
Definition af_feats (d : defaults) (us : list dunit) : list Z := flat_map (af_unit_feats d) us.
