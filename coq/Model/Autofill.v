(* Model of vc2_conformance/bitstream/vc2_autofill.py (C07).

   A stream description is a list of sequences, each a list of data units.  A data unit
   carries every sub-dictionary the autofill passes may look at, whatever its parse code
   (the code dispatches on the parse code and then reads/creates the keys it wants), the
   autofillable fields as  Auto | Explicit v | Omitted  and, as a parameter, the number of
   bytes the serialiser emits for it (distance from its parse_info to the next one).

   The four passes mirror the mechanism of the code:
     autofill_picture_number        pn_*    running `last_picture_number`
     autofill_major_version         seq_version (first loop: running max of the TRANSLATED
                                    Gen/Version.v implications) and mv_fill (second loop:
                                    `auto_used` flag, removal of extended_transform_parameters)
     autofill_parse_offsets         po_*    padding/aux: 13 + len, otherwise 0 + to-do mark
     autofill_parse_offsets_finalize fin_*  differences of the serialiser's `_offset`s
   No proofs here. *)
From Coq Require Import ZArith List Bool.
From VC2 Require Import Base.PyZ Gen.StateRec Gen.ParseCodes Gen.Version Gen.Consts.
Import ListNotations.
Open Scope Z_scope.
Open Scope bool_scope.

(* ---- descriptions -------------------------------------------------------------- *)
Inductive afield := Auto | Explicit (v : Z) | Omitted.

Record preset := mk_preset { p_flag : option bool; p_index : option Z }.

Record seqhdr := mk_seqhdr {
  sh_major_version : afield;
  sh_profile : option Z;
  sh_frame_rate : preset;
  sh_signal_range : preset;
  sh_color_spec : preset;
  sh_color_primaries : preset;
  sh_color_matrix : preset;
  sh_transfer_function : preset }.

Record etparams := mk_etp {
  e_index_flag : option bool; e_wavelet_index_ho : option Z;
  e_asym_flag : option bool; e_dwt_depth_ho : option Z }.

(* t_etp = None: key "extended_transform_parameters" absent *)
Record tparams := mk_tp { t_wavelet_index : option Z; t_etp : option etparams }.

Record dunit := mk_dunit {
  u_parse_code : option Z;
  u_npo : afield;
  u_ppo : afield;
  u_sh : seqhdr;                 (* sequence_header (absent = all omitted) *)
  u_pic_number : afield;         (* picture_parse.picture_header.picture_number *)
  u_pic_tp : tparams;            (* picture_parse.wavelet_transform.transform_parameters *)
  u_frag_number : afield;        (* fragment_parse.fragment_header.picture_number *)
  u_frag_slice_count : option Z; (* fragment_parse.fragment_header.fragment_slice_count *)
  u_frag_tp : tparams;           (* fragment_parse.transform_parameters *)
  u_aux_len : option Z;          (* len(auxiliary_data.bytes) *)
  u_pad_len : option Z;          (* len(padding.bytes) *)
  u_len : Z                      (* serialised length in bytes (given by the serialiser) *)
}.

(* the entries of vc2_default_values_with_auto the passes read (dumped from the live
   table by the harness; the theorems hold for every table) *)
Record defaults := mk_defaults {
  d_parse_code : Z;
  d_major_version : option Z;    (* None = AUTO *)
  d_profile : Z;
  d_frame_rate : bool * Z;
  d_signal_range : bool * Z;
  d_color_spec : bool * Z;
  d_color_primaries : bool * Z;
  d_color_matrix : bool * Z;
  d_transfer_function : bool * Z;
  d_frag_slice_count : Z;
  d_wavelet_index : Z;
  d_index_flag : bool; d_wavelet_index_ho : Z;
  d_asym_flag : bool; d_dwt_depth_ho : Z;
  d_aux_len : Z; d_pad_len : Z }.

Definition getd {A} (o : option A) (dv : A) : A := match o with Some x => x | None => dv end.

(* vc2_data_tables constants (checked against the live tables by the harness) *)
Definition PC_SEQUENCE_HEADER : Z := 0.
Definition PC_END_OF_SEQUENCE : Z := 16.
Definition PC_AUXILIARY_DATA : Z := 32.
Definition PC_PADDING_DATA : Z := 48.
Definition PC_LD_PICTURE : Z := 200.
Definition PC_HQ_PICTURE : Z := 232.
Definition PC_LD_FRAGMENT : Z := 204.
Definition PC_HQ_FRAGMENT : Z := 236.
Definition PARSE_INFO_HEADER_BYTES : Z := 13.

(* ---- record updates ------------------------------------------------------------- *)
Definition set_npo (u : dunit) (f : afield) : dunit :=
  mk_dunit (u_parse_code u) f (u_ppo u) (u_sh u) (u_pic_number u) (u_pic_tp u) (u_frag_number u)
           (u_frag_slice_count u) (u_frag_tp u) (u_aux_len u) (u_pad_len u) (u_len u).
Definition set_ppo (u : dunit) (f : afield) : dunit :=
  mk_dunit (u_parse_code u) (u_npo u) f (u_sh u) (u_pic_number u) (u_pic_tp u) (u_frag_number u)
           (u_frag_slice_count u) (u_frag_tp u) (u_aux_len u) (u_pad_len u) (u_len u).
Definition set_sh (u : dunit) (h : seqhdr) : dunit :=
  mk_dunit (u_parse_code u) (u_npo u) (u_ppo u) h (u_pic_number u) (u_pic_tp u) (u_frag_number u)
           (u_frag_slice_count u) (u_frag_tp u) (u_aux_len u) (u_pad_len u) (u_len u).
Definition set_pic_number (u : dunit) (f : afield) : dunit :=
  mk_dunit (u_parse_code u) (u_npo u) (u_ppo u) (u_sh u) f (u_pic_tp u) (u_frag_number u)
           (u_frag_slice_count u) (u_frag_tp u) (u_aux_len u) (u_pad_len u) (u_len u).
Definition set_pic_tp (u : dunit) (t : tparams) : dunit :=
  mk_dunit (u_parse_code u) (u_npo u) (u_ppo u) (u_sh u) (u_pic_number u) t (u_frag_number u)
           (u_frag_slice_count u) (u_frag_tp u) (u_aux_len u) (u_pad_len u) (u_len u).
Definition set_frag_number (u : dunit) (f : afield) : dunit :=
  mk_dunit (u_parse_code u) (u_npo u) (u_ppo u) (u_sh u) (u_pic_number u) (u_pic_tp u) f
           (u_frag_slice_count u) (u_frag_tp u) (u_aux_len u) (u_pad_len u) (u_len u).
Definition set_frag_tp (u : dunit) (t : tparams) : dunit :=
  mk_dunit (u_parse_code u) (u_npo u) (u_ppo u) (u_sh u) (u_pic_number u) (u_pic_tp u) (u_frag_number u)
           (u_frag_slice_count u) t (u_aux_len u) (u_pad_len u) (u_len u).
Definition set_major_version (h : seqhdr) (f : afield) : seqhdr :=
  mk_seqhdr f (sh_profile h) (sh_frame_rate h) (sh_signal_range h) (sh_color_spec h)
            (sh_color_primaries h) (sh_color_matrix h) (sh_transfer_function h).
Definition drop_etp (t : tparams) : tparams := mk_tp (t_wavelet_index t) None.

(* ---- autofill_picture_number ---------------------------------------------------- *)
Definition mask32 (x : Z) : Z := Z.land x 4294967295.

(* the pass tests `parse_code in (ParseCodes.low_delay_picture, ...)` on the RAW entry
   (`.get("parse_code")`, no default) *)
Inductive pnkind := PNPicture | PNFragment | PNOther.
Definition pn_kind (u : dunit) : pnkind :=
  match u_parse_code u with
  | Some pc =>
      if (pc =? PC_LD_PICTURE) || (pc =? PC_HQ_PICTURE) then PNPicture
      else if (pc =? PC_LD_FRAGMENT) || (pc =? PC_HQ_FRAGMENT) then PNFragment
      else PNOther
  | None => PNOther
  end.

(* `increment` of the code *)
Definition pn_increment (d : defaults) (u : dunit) : bool :=
  match pn_kind u with
  | PNPicture => true
  | PNFragment => getd (u_frag_slice_count u) (d_frag_slice_count d) =? 0
  | PNOther => false
  end.

Definition pn_field (u : dunit) : afield :=
  match pn_kind u with
  | PNPicture => u_pic_number u
  | PNFragment => u_frag_number u
  | PNOther => Omitted
  end.

(* the number the unit carries after the pass, given last_picture_number *)
Definition pn_value (d : defaults) (last : Z) (u : dunit) : Z :=
  match pn_field u with
  | Explicit v => v
  | _ => if pn_increment d u then mask32 (last + 1) else last
  end.

Definition pn_unit (d : defaults) (last : Z) (u : dunit) : dunit * Z :=
  match pn_kind u with
  | PNPicture => let n := pn_value d last u in (set_pic_number u (Explicit n), n)
  | PNFragment => let n := pn_value d last u in (set_frag_number u (Explicit n), n)
  | PNOther => (u, last)
  end.

Fixpoint pn_seq (d : defaults) (last : Z) (us : list dunit) : list dunit :=
  match us with
  | [] => []
  | u :: r => let '(u', last') := pn_unit d last u in u' :: pn_seq d last' r
  end.

Definition autofill_picture_number (d : defaults) (initial : Z) (s : list (list dunit)) : list (list dunit) :=
  map (pn_seq d (mask32 (initial - 1))) s.

(* ---- autofill_major_version ------------------------------------------------------- *)
Definition eff_parse_code (d : defaults) (u : dunit) : Z := getd (u_parse_code u) (d_parse_code d).
Definition is_picture_pc (pc : Z) : bool := is_picture (set_st_parse_code empty_pystate pc).
Definition is_fragment_pc (pc : Z) : bool := is_fragment (set_st_parse_code empty_pystate pc).

(* get_transform_parameters: which transform_parameters dict (if any) *)
Inductive tpsel := TPpic | TPfrag | TPnone.
Definition tp_select (d : defaults) (u : dunit) : tpsel :=
  let pc := eff_parse_code d u in
  if is_picture_pc pc then TPpic
  else if is_fragment_pc pc && (getd (u_frag_slice_count u) (d_frag_slice_count d) =? 0) then TPfrag
  else TPnone.
Definition get_tp (d : defaults) (u : dunit) : option tparams :=
  match tp_select d u with
  | TPpic => Some (u_pic_tp u)
  | TPfrag => Some (u_frag_tp u)
  | TPnone => None
  end.

(* `if get_auto(x, "custom_..._flag"): index = get_auto(x, "index")` *)
Definition preset_on (p : preset) (dp : bool * Z) : option Z :=
  if getd (p_flag p) (fst dp) then Some (getd (p_index p) (snd dp)) else None.

Definition max_opt (mv : Z) (f : Z -> Z) (o : option Z) : Z :=
  match o with Some i => Z.max mv (f i) | None => mv end.

Definition header_version (d : defaults) (mv : Z) (h : seqhdr) : Z :=
  let mv := Z.max mv (profile_version_implication (getd (sh_profile h) (d_profile d))) in
  let mv := max_opt mv preset_frame_rate_version_implication (preset_on (sh_frame_rate h) (d_frame_rate d)) in
  let mv := max_opt mv preset_signal_range_version_implication (preset_on (sh_signal_range h) (d_signal_range d)) in
  match preset_on (sh_color_spec h) (d_color_spec d) with
  | Some i =>
      let mv := Z.max mv (preset_color_spec_version_implication i) in
      if i =? 0 then
        let mv := max_opt mv preset_color_primaries_version_implication
                          (preset_on (sh_color_primaries h) (d_color_primaries d)) in
        let mv := max_opt mv preset_color_matrix_version_implication
                          (preset_on (sh_color_matrix h) (d_color_matrix d)) in
        max_opt mv preset_transfer_function_version_implication
                (preset_on (sh_transfer_function h) (d_transfer_function d))
      else mv
  | None => mv
  end.

Definition empty_etp : etparams := mk_etp None None None None.

(* the (wavelet_index, wavelet_index_ho, dwt_depth_ho) triple the first loop computes *)
Definition tp_triple (d : defaults) (tp : tparams) : Z * Z * Z :=
  let etp := getd (t_etp tp) empty_etp in
  let wi := getd (t_wavelet_index tp) (d_wavelet_index d) in
  let wi_ho := if getd (e_index_flag etp) (d_index_flag d)
               then getd (e_wavelet_index_ho etp) (d_wavelet_index_ho d) else wi in
  let dho := if getd (e_asym_flag etp) (d_asym_flag d)
             then getd (e_dwt_depth_ho etp) (d_dwt_depth_ho d) else 0 in
  (wi, wi_ho, dho).
Definition tp_version (d : defaults) (tp : tparams) : Z :=
  let '(wi, wi_ho, dho) := tp_triple d tp in wavelet_transform_version_implication wi wi_ho dho.

Definition unit_version (d : defaults) (mv : Z) (u : dunit) : Z :=
  let pc := eff_parse_code d u in
  let mv := Z.max mv (parse_code_version_implication pc) in
  if pc =? PC_SEQUENCE_HEADER then header_version d mv (u_sh u)
  else match get_tp d u with
       | Some tp => Z.max mv (tp_version d tp)
       | None => mv
       end.

Definition seq_version (d : defaults) (us : list dunit) : Z :=
  fold_left (unit_version d) us MINIMUM_MAJOR_VERSION.

(* `get_auto(parse_parameters, "major_version", ParseParameters) is AUTO` *)
Definition mv_is_auto (d : defaults) (f : afield) : bool :=
  match f with
  | Auto => true
  | Explicit _ => false
  | Omitted => match d_major_version d with None => true | Some _ => false end
  end.

Definition drop_unit_etp (d : defaults) (u : dunit) : dunit :=
  match tp_select d u with
  | TPpic => set_pic_tp u (drop_etp (u_pic_tp u))
  | TPfrag => set_frag_tp u (drop_etp (u_frag_tp u))
  | TPnone => u
  end.

Fixpoint mv_fill (d : defaults) (mv : Z) (auto_used : bool) (us : list dunit) : list dunit :=
  match us with
  | [] => []
  | u :: r =>
      if eff_parse_code d u =? PC_SEQUENCE_HEADER then
        if mv_is_auto d (sh_major_version (u_sh u))
        then set_sh u (set_major_version (u_sh u) (Explicit mv)) :: mv_fill d mv true r
        else u :: mv_fill d mv false r
      else
        (if auto_used && (mv <? 3) then drop_unit_etp d u else u) :: mv_fill d mv auto_used r
  end.

Definition mv_seq (d : defaults) (us : list dunit) : list dunit := mv_fill d (seq_version d us) false us.
Definition autofill_major_version (d : defaults) (s : list (list dunit)) : list (list dunit) :=
  map (mv_seq d) s.

(* ---- autofill_parse_offsets -------------------------------------------------------- *)
Definition is_autoish (f : afield) : bool := match f with Explicit _ => false | _ => true end.

(* a unit after the pass + "still to be filled after serialisation" marks *)
Record marked := mk_marked { m_unit : dunit; m_npo_todo : bool; m_ppo_todo : bool }.

Definition po_padaux (d : defaults) (u : dunit) : afield :=
  match u_parse_code u with   (* raw `.get("parse_code")`, no default *)
  | Some pc =>
      if pc =? PC_AUXILIARY_DATA then
        (if is_autoish (u_npo u) then Explicit (PARSE_INFO_HEADER_BYTES + getd (u_aux_len u) (d_aux_len d)) else u_npo u)
      else if pc =? PC_PADDING_DATA then
        (if is_autoish (u_npo u) then Explicit (PARSE_INFO_HEADER_BYTES + getd (u_pad_len u) (d_pad_len d)) else u_npo u)
      else u_npo u
  | None => u_npo u
  end.

Definition po_unit (d : defaults) (u : dunit) : marked :=
  let npo1 := po_padaux d u in
  let nt := is_autoish npo1 in
  let pt := is_autoish (u_ppo u) in
  let u1 := set_npo u (if nt then Explicit 0 else npo1) in
  let u2 := if pt then set_ppo u1 (Explicit 0) else u1 in
  mk_marked u2 nt pt.

Definition autofill_parse_offsets (d : defaults) (s : list (list dunit)) : list (list marked) :=
  map (map (po_unit d)) s.

(* ---- serialisation positions and autofill_parse_offsets_finalize ----------------------- *)
(* parse_info["_offset"] of every unit: the serialiser writes the units one after the
   other; `start` is the position of the first one *)
Fixpoint seq_offsets (start : Z) (us : list marked) : list Z * Z :=
  match us with
  | [] => ([], start)
  | m :: r => let '(os, e) := seq_offsets (start + u_len (m_unit m)) r in (start :: os, e)
  end.
Fixpoint stream_offsets (start : Z) (s : list (list marked)) : list (list Z) :=
  match s with
  | [] => []
  | us :: r => let '(os, e) := seq_offsets start us in os :: stream_offsets e r
  end.

(* one sequence: `prev` = _offset of data_units[i-1] (None when i = 0);
   data_unit_index == len - 1  <->  no following unit in THIS sequence *)
Fixpoint fin_seq (prev : option Z) (l : list (marked * Z)) : list dunit :=
  match l with
  | [] => []
  | (m, o) :: r =>
      let npo := match r with [] => 0 | (_, o') :: _ => o' - o end in
      let ppo := match prev with None => 0 | Some p => o - p end in
      let u1 := if m_npo_todo m then set_npo (m_unit m) (Explicit npo) else m_unit m in
      let u2 := if m_ppo_todo m then set_ppo u1 (Explicit ppo) else u1 in
      u2 :: fin_seq (Some o) r
  end.

Definition autofill_parse_offsets_finalize (s : list (list marked)) (os : list (list Z)) : list (list dunit) :=
  map (fun p => fin_seq None (combine (fst p) (snd p))) (combine s os).

(* ---- autofill_and_serialise_stream (the description as written to the file) ------------- *)
Definition prepare (d : defaults) (s : list (list dunit)) : list (list marked) :=
  autofill_parse_offsets d (autofill_major_version d (autofill_picture_number d 0 s)).
Definition autofill_stream (d : defaults) (start : Z) (s : list (list dunit)) : list (list dunit) :=
  let m := prepare d s in
  autofill_parse_offsets_finalize m (stream_offsets start m).
