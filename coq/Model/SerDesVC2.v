(* Descriptions of bitstream/vc2.py written as [prog] terms of Model/SerDes.v (property C06).
   The data-unit header with the padding / auxiliary-data payload, sequence_header, fragment_header,
   hq_slice, ld_slice.  NO proofs here. *)
From Coq Require Import ZArith List Bool.
From VC2 Require Import Model.SerDes.
Import ListNotations.
Open Scope Z_scope.

Definition val_int (v : val) : Z := match v with VI z => z | VB b => Z.b2z b | _ => 0 end.

(* with serdes.subcontext("parse_info"): parse_info(serdes, state)
   with serdes.subcontext("padding"):    padding(serdes, state)        (auxiliary_data is identical)
   targets: 10 "parse_info" (type 1 = ParseInfo): 0 "padding", 1 "_offset", 2 "parse_info_prefix",
   3 "parse_code", 4 "next_parse_offset", 5 "previous_parse_offset";
   11 "padding" (type 2 = Padding): 6 "bytes".  The unit starts at byte 0 (so "_offset" = 0).
   [clamp] = the repaired description: length max(0, next_parse_offset - 13). *)
Definition PARSE_INFO_HEADER_BYTES := 13.
Definition unit_prog (clamp : bool) : prog unit :=
  Op (OSubEnter 10) (fun _ => Op (OSetType 1) (fun _ =>
  Op (OByteAlign 0) (fun _ => Op (OComputed 1 (VI 0)) (fun _ =>
  Op (OUintLit 2 4) (fun _ => Op (OUintLit 3 1) (fun _ =>
  Op (OUintLit 4 4) (fun npo => Op (OUintLit 5 4) (fun _ =>
  Op OSubLeave (fun _ =>
  Op (OSubEnter 11) (fun _ => Op (OSetType 2) (fun _ =>
  Op (OBytes 6 (let n := val_int npo - PARSE_INFO_HEADER_BYTES in if clamp then Z.max 0 n else n)) (fun _ =>
  Op OSubLeave (fun _ => Ret tt))))))))))))).

(* ------------------------------------------------------------------------------------------
   More of bitstream/vc2.py as program terms.  Target and context-type numbers are shared with
   tools/harness/C06.py (NAMES / TYPES); geometry (how many coefficients a slice holds) is a
   parameter: it is computed by the real slice_left/right/top/bottom in the harness.
   ------------------------------------------------------------------------------------------ *)
Fixpoint pseq {A} (p : prog unit) (q : prog A) : prog A :=
  match p with
  | Ret _ => q
  | Op o k => Op o (fun r => pseq (k r) q)
  end.
Fixpoint prep (n : nat) (body : prog unit) : prog unit :=
  match n with
  | O => Ret tt
  | S m => pseq body (prep m body)
  end.
Definition val_bool (v : val) : bool := match v with VB b => b | VI z => negb (z =? 0) | _ => false end.
(* with serdes.subcontext(t): <the @context_type(ty) function body> *)
Definition psub (t ty : Z) (body : prog unit) : prog unit :=
  Op (OSubEnter t) (fun _ => Op (OSetType ty) (fun _ => pseq body (Op OSubLeave (fun _ => Ret tt)))).
Definition puint (t : Z) : prog unit := Op (OUint t) (fun _ => Ret tt).
(* flag = serdes.bool(t); if flag: body *)
Definition pflag (t : Z) (body : prog unit) : prog unit :=
  Op (OBool t) (fun b => if val_bool b then body else Ret tt).
(* index = serdes.uint(120); <not-in-spec substitution of an unknown index by some non-zero preset>;
   if index == 0: body        -- the substitution never changes whether index == 0 *)
Definition pindex (body_custom : prog unit) : prog unit :=
  Op (OUint 120) (fun i => if val_int i =? 0 then body_custom else Ret tt).

Definition pseqs (l : list (prog unit)) : prog unit := fold_right pseq (Ret tt) l.

(* (11.1) sequence_header, called at the top of a fresh (de)serialiser *)
Definition sequence_header_prog : prog unit :=
  Op (OSetType 10) (fun _ => pseqs [
    psub 100 11 (pseqs [puint 101; puint 102; puint 103; puint 104]);
    puint 105;
    psub 106 12 (pseqs [
      psub 108 13 (pflag 109 (pseqs [puint 110; puint 111]));
      psub 112 14 (pflag 113 (puint 114));
      psub 115 15 (pflag 116 (puint 117));
      psub 118 16 (pflag 119 (pindex (pseqs [puint 121; puint 122])));
      psub 123 17 (pflag 124 (pindex (pseqs [puint 125; puint 126])));
      psub 127 18 (pflag 128 (pseqs [puint 129; puint 130; puint 131; puint 132]));
      psub 133 19 (pflag 134 (pindex (pseqs [puint 135; puint 136; puint 137; puint 138])));
      psub 139 20 (pflag 140 (pindex (pseqs [
        psub 141 21 (pflag 142 (puint 120));
        psub 143 22 (pflag 144 (puint 120));
        psub 145 23 (pflag 146 (puint 120))])))]);
    puint 107]).

(* (14.2) fragment_header *)
Definition fragment_header_prog : prog unit :=
  Op (OSetType 32) (fun _ =>
  Op (OUintLit 170 4) (fun _ => Op (OUintLit 171 2) (fun _ =>
  Op (OUintLit 172 2) (fun n =>
  if val_int n =? 0 then Ret tt
  else Op (OUintLit 173 2) (fun _ => Op (OUintLit 174 2) (fun _ => Ret tt)))))).

(* one component of an HQ slice: length byte, bounded block of 8*scaler*length bits holding n
   coefficients, the unused bits of the block *)
Definition hq_component (t_len t_coeffs t_pad scaler : Z) (n : nat) : prog unit :=
  Op (OUintLit t_len 1) (fun len =>
  Op (OBBegin (8 * (scaler * val_int len))) (fun _ =>
  pseq (prep n (Op (OSint t_coeffs) (fun _ => Ret tt)))
  (Op (OBEnd t_pad) (fun _ => Ret tt)))).

(* (13.5.4) hq_slice(serdes, state, sx, sy) with state["slice_prefix_bytes"] = prefix,
   state["slice_size_scaler"] = scaler and ny/nc1/nc2 coefficients per component *)
Definition pop (o : op) : prog unit := Op o (fun _ => Ret tt).
Definition hq_slice_prog (prefix scaler : Z) (ny nc1 nc2 : nat) (sx sy : Z) : prog unit :=
  pseqs [pop (OSetType 30); pop (OBytes 150 prefix); pop (OUintLit 151 1);
         pop (OComputed 152 (VI sx)); pop (OComputed 153 (VI sy));
         pop (ODeclList 154); pop (ODeclList 155); pop (ODeclList 156);
         hq_component 157 154 160 scaler ny;
         hq_component 158 155 161 scaler nc1;
         hq_component 159 156 162 scaler nc2].

(* (13.5.3.1) ld_slice with slice_bytes(state, sx, sy) = sb, length_bits = intlog2(8*sb - 7) (given),
   ny luma and nc colour-difference coefficient PAIRS; the length is clamped ("not in spec") *)
Definition ld_slice_prog (sb length_bits : Z) (ny nc : nat) (sx sy : Z) : prog unit :=
  pseq (pop (OSetType 31)) (pseq (pop (ONBits 151 7))
  (Op (ONBits 157 length_bits) (fun ylen =>
   let left := 8 * sb - 7 - length_bits in
   let y := if left <? val_int ylen then left else val_int ylen in
   pseqs [pop (OComputed 152 (VI sx)); pop (OComputed 153 (VI sy));
          pop (ODeclList 154); pop (ODeclList 163);
          pop (OBBegin y);
          prep ny (pop (OSint 154));
          pop (OBEnd 160);
          pop (OBBegin (left - y));
          prep nc (pseq (pop (OSint 163)) (pop (OSint 163)));
          pop (OBEnd 164)]))).
