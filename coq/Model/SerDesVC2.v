(* Descriptions of bitstream/vc2.py written as [prog] terms of Model/SerDes.v (property C06).
   Only the data-unit header and the padding / auxiliary-data payload so far. NO proofs here. *)
From Coq Require Import ZArith List Bool.
From VC2 Require Import Model.SerDes.
Import ListNotations.
Open Scope Z_scope.

Definition val_int (v : val) : Z := match v with VI z => z | VB b => Z.b2z b | _ => 0 end.

(* with serdes.subcontext("parse_info"): parse_info(serdes, state)
   with serdes.subcontext("padding"):    padding(serdes, state)        (auxiliary_data is identical)
   targets: 10 "parse_info" (type 1 = ParseInfo): 0 "padding", 1 "_offset", 2 "parse_info_prefix",
   3 "parse_code", 4 "next_parse_offset", 5 "previous_parse_offset";
   11 "padding" (type 2 = Padding): 6 "bytes".  The unit starts at byte 0 (so "_offset" = 0).
   [clamp] = the repaired description: length max(0, next_parse_offset - 13). *)
Definition PARSE_INFO_HEADER_BYTES := 13.
Definition unit_prog (clamp : bool) : prog unit :=
  Op (OSubEnter 10) (fun _ => Op (OSetType 1) (fun _ =>
  Op (OByteAlign 0) (fun _ => Op (OComputed 1 (VI 0)) (fun _ =>
  Op (OUintLit 2 4) (fun _ => Op (OUintLit 3 1) (fun _ =>
  Op (OUintLit 4 4) (fun npo => Op (OUintLit 5 4) (fun _ =>
  Op OSubLeave (fun _ =>
  Op (OSubEnter 11) (fun _ => Op (OSetType 2) (fun _ =>
  Op (OBytes 6 (let n := val_int npo - PARSE_INFO_HEADER_BYTES in if clamp then Z.max 0 n else n)) (fun _ =>
  Op OSubLeave (fun _ => Ret tt))))))))))))).
