(* Model/IntegSeqCorr.v -- computable comparison functions for the correspondence tie of the C03 bridge
   (tools/harness/C03.py, "bridge" section): the REAL encoder's data-unit sequence, abstracted to
   Model/Stream.v unit literals, against Model/IntegSeq.v make_sequence_units on the same inputs, plus the
   decidable hypotheses of C03_structure.  No proofs. *)
From Coq Require Import ZArith List Bool.
From VC2 Require Import Base.PyZ Base.CorrLib Gen.Version Model.Regex Model.NFA Model.Matcher Model.MatchSeq
  Model.EncoderSeq Model.Stream Proofs.IntegEncoder Model.IntegSeq.
Import ListNotations.
Open Scope Z_scope.

(* data-unit literals, same convention as Corr/C01.v (tools/harness/C01.py coq_units):
     UL tag a b c d e f len npo ppo
     tag 0 SeqHdr (id, major, profile, level, pcm, pvmin)   1 Pic / 2 FragFirst (hq, picnum, wi, wi_ho, depth_ho, sx*65536+sy)
     3 FragData (hq, picnum, count, x, y, 0)   4 Pad  5 Aux  6 Eos *)
Inductive ulit := UL (tag a b c d e f len npo ppo : Z).
Definition mk_unit (t : ulit) : dunit :=
  let '(UL tag a b c d e f len npo ppo) := t in
  let k :=
    if tag =? 0 then KSeqHdr (mkHdr a b c d e f)
    else if tag =? 1 then KPic (negb (a =? 0)) b (mkTp c d e (f / 65536) (f mod 65536))
    else if tag =? 2 then KFragFirst (negb (a =? 0)) b (mkTp c d e (f / 65536) (f mod 65536))
    else if tag =? 3 then KFragData (negb (a =? 0)) b c d e
    else if tag =? 4 then KPad else if tag =? 5 then KAux else KEos in
  mkUnit k len npo ppo.

Definition b2z (b : bool) : Z := if b then 1 else 0.
Definition unit_code (u : dunit) : list Z :=
  match u_kind u with
  | KSeqHdr h => [0; h_id h; h_major h; h_profile h; h_level h; h_pcm h; h_pvmin h]
  | KPic hq n tp => [1; b2z hq; n; tp_wi tp; tp_wi_ho tp; tp_depth_ho tp; tp_sx tp; tp_sy tp]
  | KFragFirst hq n tp => [2; b2z hq; n; tp_wi tp; tp_wi_ho tp; tp_depth_ho tp; tp_sx tp; tp_sy tp]
  | KFragData hq n c x y => [3; b2z hq; n; c; x; y]
  | KPad => [4] | KAux => [5] | KEos => [6]
  end ++ [u_len u; u_npo u; u_ppo u].
Definition units_eqb (a b : list dunit) : bool := list_eqb zlist_eqb (map unit_code a) (map unit_code b).

(* short constructors for the C07 description literals (as Corr/C07.v) *)
Definition BP := AF.mk_preset.
Definition BH := AF.mk_seqhdr.
Definition BD := AF.mk_defaults.
Definition BA := AF.Auto.

Fixpoint parse_all (l : list (list token)) : option (list re) :=
  match l with
  | [] => Some []
  | t :: r => match parse_regex t, parse_all r with
              | inr a, Some b => Some (a :: b)
              | _, _ => None
              end
  end.

(* one picture specification: (hq, wavelet_index, wavelet_index_ho, dwt_depth_ho, slices_x, slices_y, fragment_slice_count) *)
Definition mk_spec (t : Z * Z * Z * Z * Z * Z * Z) : pic_spec :=
  let '(hq, wi, wi_ho, dho, sx, sy, fsc) := t in mkPicSpec (negb (hq =? 0)) (mkTp wi wi_ho dho sx sy) fsc.

Record bcase := mkBCase {
  bc_real : list ulit;              (* the real data units *)
  bc_level : list token;            (* the level's sequence_restriction_regex, tokenised *)
  bc_extra : list (list token);     (* *data_unit_patterns *)
  bc_d : AF.defaults;
  bc_sh : AF.seqhdr;                (* preset fields of the real sequence header *)
  bc_hdr : Z * Z * Z * Z;           (* profile, level, picture_coding_mode, largest preset bound the REAL validator logged *)
  bc_start : Z;
  bc_specs : list (Z * Z * Z * Z * Z * Z * Z);
  bc_expected : Z;                  (* the real validator's state["_expected_major_version"] at the end *)
  bc_fuel : Z }.

Definition spec_ok_b (p : pic_spec) : bool := (0 <? tp_sx (ps_tp p)) && (0 <? tp_sy (ps_tp p)) && (0 <=? ps_fsc p).

(* 0 = everything agrees; otherwise the first thing that does not *)
Definition bridge_code (c : bcase) : Z :=
  match parse_regex (bc_level c), parse_all (bc_extra c) with
  | inr lvl, Some extra =>
      if negb (eos_ok lvl && forallb eos_ok extra) then 2 else
      let '(profile, level, pcm, pvreal) := bc_hdr c in
      let pv := hdr_pvmin (bc_d c) (bc_sh c) in
      if negb (pv =? pvreal) then 3 else
      let h := mkHdr 1 0 profile level pcm pv in
      let ps := map mk_spec (bc_specs c) in
      let real := map mk_unit (bc_real c) in
      let lvl_re := fun _ : Z => lvl in
      match make_sequence_units (Z.to_nat (bc_fuel c)) lvl_re extra (bc_d c) (bc_sh c) h
                                (pics_kinds (bc_start c) ps) (map u_len real) with
      | None => 4
      | Some us =>
          if negb (units_eqb us real) then 5 else
          (* (a) the decidable hypotheses of C03_structure *)
          let hq := match ps with p :: _ => ps_hq p | [] => false end in
          let whole := match ps with p :: _ => ps_fsc p =? 0 | [] => false end in
          if negb (eos_only_last us && forallb spec_ok_b ps &&
                   forallb (fun p => Bool.eqb (ps_hq p) hq && Bool.eqb (ps_fsc p =? 0) whole) ps &&
                   (negb (pcm =? 1) || ((bc_start c mod 2 =? 0) && (Z.of_nat (length ps) mod 2 =? 0))) &&
                   forallb (fun p => profile =? (if ps_hq p then 3 else 0)) ps &&
                   forallb (fun u => 13 <=? u_len u) real && profile_known profile) then 6 else
          (* its conclusion, evaluated *)
          if negb (match Mrun lvl_re (fun _ => true) us with Accept => true | _ => false end) then 7 else
          (* the version bridge against the real validator's log: both formulations *)
          let v := match first_hdr us with Some h0 => h_major h0 | None => 0 end in
          if negb (AS.val_expected (bc_d c) v (map (to_af (bc_sh c)) us) =? bc_expected c) then 8 else
          if negb (fold_right (fun u a => Z.max (unit_version u) a) (hdr_version (with_major v h)) us =? bc_expected c) then 9 else
          (* every level but 0: the pattern's shape guarantees end_of_sequence only last (C03_structure) *)
          if negb ((level =? 0) || ends_with_eos lvl) then 10 else
          0
      end
  | _, _ => 1
  end.

(* the real encoder refused (IncompatibleLevelAndDataUnitError): the model's search must say Impossible *)
Definition bridge_impossible (c : bcase) : bool :=
  match parse_regex (bc_level c), parse_all (bc_extra c) with
  | inr lvl, Some extra =>
      match make_sequence_names (Z.to_nat (bc_fuel c)) (fun _ => lvl) extra 0
                                (pics_kinds (bc_start c) (map mk_spec (bc_specs c))) with
      | Impossible => true
      | _ => false
      end
  | _, _ => false
  end.

(* the real make_sequence died with KeyError / IndexError in data_unit_makers: the model's search returned
   names and the makers (weave) have none for one of them *)
Definition bridge_maker_error (c : bcase) : bool :=
  match parse_regex (bc_level c), parse_all (bc_extra c) with
  | inr lvl, Some extra =>
      let pks := pics_kinds (bc_start c) (map mk_spec (bc_specs c)) in
      match make_sequence_names (Z.to_nat (bc_fuel c)) (fun _ => lvl) extra 0 pks with
      | Seq out => match weave (mkHdr 1 0 0 0 0 1) (first_symbol pks) out pks with None => true | Some _ => false end
      | _ => false
      end
  | _, _ => false
  end.
