(* Model of vc2_conformance/fixeddict.py (property C27).

   A fixed-entry dictionary type is a `dict` subclass created by `fixeddict(name, *entries)`;
   its methods close over `entry_objs` (the declared entry names).  The model mirrors the
   mechanism of each overridden method and of the inherited `dict` methods it relies on:

     __init__      dict.__init__(self, *args, **kwargs) stores EVERYTHING first, then the
                   keys are scanned in iteration order and the first undeclared one raises
     __setitem__   `if key in entry_objs: dict.__setitem__ else raise FixedDictKeyError`
     setdefault    same test, then dict.setdefault
     update        `for k in E: self[k] = E[k]` (E has .keys) / `for k, v in E: self[k] = v`,
                   then `for k in F: self[k] = F[k]`; an exception leaves the earlier items stored
     __ior__       TWO variants: `IOrUnchecked` = the inherited dict.__ior__ of Python >= 3.9
                   (stores directly, no key test -- the pinned tree), `IOrChecked` = delegation
                   to the checked `update` (fixes/C27-ior.diff)
     copy          `self.__class__(self)`
     __reduce__    `(type(self), (), dict(self))`; pickle / copy.copy / copy.deepcopy rebuild the
                   object as `obj = cls(args..); obj.__setstate__(state)` with
                   `__setstate__ = self.update(state)`
     __delitem__, pop, popitem, clear   inherited from dict (they only remove)

   A Python dict is an insertion-ordered association list with unique keys; assigning to an
   existing key keeps its position (and the old key object), a new key is appended.
   Keys are any type with a boolean equality (Python: hash/==), values any type.
   No proofs in this file. *)
From Coq Require Import List Bool String.
Import ListNotations.

Section FixedDict.
Variables K V : Type.
Variable keqb : K -> K -> bool.

Definition items := list (K * V).

(* ---- plain dict ----------------------------------------------------------------- *)
Definition d_keys (l : items) : list K := map fst l.

Fixpoint d_get (k : K) (l : items) : option V :=
  match l with
  | [] => None
  | (k', v') :: r => if keqb k k' then Some v' else d_get k r
  end.

Fixpoint d_set (k : K) (v : V) (l : items) : items :=
  match l with
  | [] => [(k, v)]
  | (k', v') :: r => if keqb k k' then (k', v) :: r else (k', v') :: d_set k v r
  end.

Fixpoint d_del (k : K) (l : items) : items :=
  match l with
  | [] => []
  | (k', v') :: r => if keqb k k' then r else (k', v') :: d_del k r
  end.

(* dict.update / dict.__init__ / dict.__ior__ : store every pair, later wins *)
Definition d_update (l : items) (ps : items) : items :=
  fold_left (fun acc p => d_set (fst p) (snd p) acc) ps l.

(* an argument that is either a mapping (has .keys(): `for k in E: ... E[k]`) or an
   iterable of pairs (`for k, v in E`) *)
Inductive source := Mapping (e : items) | Pairs (e : items).

Definition mapping_pairs (e : items) : items :=
  flat_map (fun k => match d_get k e with Some v => [(k, v)] | None => [] end) (d_keys e).

Definition source_pairs (s : source) : items :=
  match s with Mapping e => mapping_pairs e | Pairs e => e end.

Definition opt_source_pairs (s : option source) : items :=
  match s with Some s => source_pairs s | None => [] end.

(* ---- the generated class ------------------------------------------------------------ *)
Record fdclass := { cname : string; centries : list K }.

(* `key in entry_objs` *)
Definition declared (c : fdclass) (k : K) : bool := existsb (keqb k) (centries c).

Record fd := { fcls : fdclass; fitems : items }.

Inductive init_result := InitOk (s : fd) | InitErr (k : K).

(* cls(args.., kwargs..) *)
Definition init (c : fdclass) (e : option source) (f : items) : init_result :=
  let l := d_update (d_update [] (opt_source_pairs e)) f in
  match find (fun k => negb (declared c k)) (d_keys l) with
  | Some k => InitErr k
  | None => InitOk {| fcls := c; fitems := l |}
  end.

(* `for k, v in ps: self[k] = v` with the checked __setitem__: stops at the first
   undeclared key, everything before it stays stored *)
Fixpoint set_all (c : fdclass) (ps : items) (l : items) : items * option K :=
  match ps with
  | [] => (l, None)
  | (k, v) :: r => if declared c k then set_all c r (d_set k v l) else (l, Some k)
  end.

(* update(E, **F) : the E loop, then the F loop *)
Definition update (c : fdclass) (e : option source) (f : items) (l : items) : items * option K :=
  match set_all c (opt_source_pairs e) l with
  | (l1, Some k) => (l1, Some k)
  | (l1, None) => set_all c f l1
  end.

(* ---- pickle / copy protocol --------------------------------------------------------------- *)
(* __reduce__ : (callable, constructor arguments, state) *)
Definition reduced := (fdclass * (option source * items) * items)%type.

Definition getstate (s : fd) : items := fitems s.               (* dict(self) *)
Definition reduce (s : fd) : reduced := (fcls s, (None, []), getstate s).

(* what pickle.loads / copy._reconstruct do with a 3-tuple:
   obj = callable(args..); obj.__setstate__(state)  where __setstate__ = self.update(state) *)
Definition rebuild (r : reduced) : init_result :=
  let '(c, (e, f), st) := r in
  match init c e f with
  | InitErr k => InitErr k
  | InitOk s0 =>
      match update c (Some (Mapping st)) [] (fitems s0) with
      | (l, None) => InitOk {| fcls := c; fitems := l |}
      | (_, Some k) => InitErr k
      end
  end.

(* ---- operations on a live object --------------------------------------------------------------- *)
Inductive ior_variant := IOrChecked | IOrUnchecked.

Inductive op :=
| SetItem (k : K) (v : V)                       (* d[k] = v *)
| SetDefault (k : K) (v : V)                    (* d.setdefault(k, v) *)
| Update (e : option source) (f : items)        (* d.update(E, **F) *)
| IOr (e : source)                              (* d |= E *)
| CopyMethod                                    (* d = d.copy() *)
| CopyModule                                    (* d = copy.copy(d) / copy.deepcopy(d) *)
| PickleRoundTrip                               (* d = pickle.loads(pickle.dumps(d, protocol)) *)
| DelItem (k : K)                               (* del d[k] *)
| Pop (k : K)                                   (* d.pop(k) *)
| PopItem                                       (* d.popitem() *)
| Clear.                                        (* d.clear() *)

Inductive outcome :=
| Returned (r : option V)                       (* normal return (the returned value, if any) *)
| ReturnedItem (k : K) (v : V)                  (* popitem *)
| RaisedFixedDictKeyError (k : K)
| RaisedKeyError.                               (* the plain dict KeyError of del/pop/popitem *)

Definition with_items (s : fd) (l : items) : fd := {| fcls := fcls s; fitems := l |}.

Definition finish (s : fd) (r : items * option K) : fd * outcome :=
  match r with
  | (l, None) => (with_items s l, Returned None)
  | (l, Some k) => (with_items s l, RaisedFixedDictKeyError k)
  end.

Definition replace_by (s : fd) (r : init_result) : fd * outcome :=
  match r with
  | InitOk s' => (s', Returned None)
  | InitErr k => (s, RaisedFixedDictKeyError k)
  end.

Definition step (var : ior_variant) (s : fd) (o : op) : fd * outcome :=
  let c := fcls s in
  let l := fitems s in
  match o with
  | SetItem k v =>
      if declared c k then (with_items s (d_set k v l), Returned None)
      else (s, RaisedFixedDictKeyError k)
  | SetDefault k v =>
      if declared c k then
        match d_get k l with
        | Some v' => (s, Returned (Some v'))
        | None => (with_items s (d_set k v l), Returned (Some v))
        end
      else (s, RaisedFixedDictKeyError k)
  | Update e f => finish s (update c e f l)
  | IOr e =>
      match var with
      | IOrChecked => finish s (update c (Some e) [] l)
      | IOrUnchecked => (with_items s (d_update l (source_pairs e)), Returned None)
      end
  | CopyMethod => replace_by s (init c (Some (Mapping l)) [])
  | CopyModule => replace_by s (rebuild (reduce s))
  | PickleRoundTrip => replace_by s (rebuild (reduce s))
  | DelItem k =>
      match d_get k l with
      | Some _ => (with_items s (d_del k l), Returned None)
      | None => (s, RaisedKeyError)
      end
  | Pop k =>
      match d_get k l with
      | Some v => (with_items s (d_del k l), Returned (Some v))
      | None => (s, RaisedKeyError)
      end
  | PopItem =>
      match rev l with
      | (k, v) :: r => (with_items s (rev r), ReturnedItem k v)
      | [] => (s, RaisedKeyError)
      end
  | Clear => (with_items s [], Returned None)
  end.

(* a history: the object survives exceptions, the next operation acts on what was retained *)
Definition run (var : ior_variant) (s : fd) (ops : list op) : fd :=
  fold_left (fun s o => fst (step var s o)) ops s.

(* the same with every intermediate observation (used by the correspondence run) *)
Fixpoint trace (var : ior_variant) (s : fd) (ops : list op) : list (outcome * items) :=
  match ops with
  | [] => []
  | o :: r => let '(s', out) := step var s o in (out, fitems s') :: trace var s' r
  end.

End FixedDict.

Arguments Mapping {K V}.
Arguments Pairs {K V}.
Arguments Build_fdclass {K}.
Arguments cname {K}.
Arguments centries {K}.
Arguments Build_fd {K V}.
Arguments fcls {K V}.
Arguments fitems {K V}.
Arguments InitOk {K V}.
Arguments InitErr {K V}.
Arguments SetItem {K V}.
Arguments SetDefault {K V}.
Arguments Update {K V}.
Arguments IOr {K V}.
Arguments CopyMethod {K V}.
Arguments CopyModule {K V}.
Arguments PickleRoundTrip {K V}.
Arguments DelItem {K V}.
Arguments Pop {K V}.
Arguments PopItem {K V}.
Arguments Clear {K V}.
Arguments Returned {K V}.
Arguments ReturnedItem {K V}.
Arguments RaisedFixedDictKeyError {K V}.
Arguments RaisedKeyError {K V}.
Arguments d_keys {K V}.
Arguments d_get {K V}.
Arguments d_set {K V}.
Arguments d_del {K V}.
Arguments d_update {K V}.
Arguments mapping_pairs {K V}.
Arguments source_pairs {K V}.
Arguments opt_source_pairs {K V}.
Arguments declared {K}.
Arguments init {K V}.
Arguments set_all {K V}.
Arguments update {K V}.
Arguments getstate {K V}.
Arguments reduce {K V}.
Arguments rebuild {K V}.
Arguments with_items {K V}.
Arguments finish {K V}.
Arguments replace_by {K V}.
Arguments step {K V}.
Arguments run {K V}.
Arguments trace {K V}.
