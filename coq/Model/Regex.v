(* Model of vc2_conformance/symbol_re.py, part 1: the pattern syntax.
     - AST (`Symbol`/`Star`/`Concatenation`/`Union`/None) and its denotation,
     - tokens and the right-to-left recursive-descent parser `parse_expression`.
   No proofs in here (see Proofs/RegexProofs.v).

   Symbols are integers (the harness numbers the symbol names).  Python's
   `Symbol(WILDCARD)` is `Any`, `Symbol(END_OF_SEQUENCE)` is `Eos`, the AST
   `None` is `Empty` (wherever it occurs: `Union(x, None)`, `Star(None)` ...). *)
From Coq Require Import ZArith List Bool.
Import ListNotations.

Definition sym := Z.

Inductive re : Type :=
| Empty
| Sym (s : sym)
| Any
| Eos
| Cat (a b : re)
| Alt (a b : re)
| Star (a : re).

(* ---- denotation --------------------------------------------------------------
   `$` "matches only at the end of the sequence": it consumes nothing and needs
   the rest of the input to be empty.  This is stated with an explicit end
   marker: the input symbols are followed by as many `End` letters as the match
   wants, every `$` consumes one `End`, the wildcard and symbols only consume
   real symbols.  So every `$` is matched after the last real symbol.  *)
Inductive letter := Real (s : sym) | End.

Inductive langE : re -> list letter -> Prop :=
| LE_empty : langE Empty []
| LE_sym s : langE (Sym s) [Real s]
| LE_any s : langE Any [Real s]
| LE_eos : langE Eos [End]
| LE_cat a b u v : langE a u -> langE b v -> langE (Cat a b) (u ++ v)
| LE_altl a b u : langE a u -> langE (Alt a b) u
| LE_altr a b u : langE b u -> langE (Alt a b) u
| LE_star0 a : langE (Star a) []
| LE_star1 a u v : langE a u -> langE (Star a) v -> langE (Star a) (u ++ v).

Definition word (w : list sym) (k : nat) : list letter := map Real w ++ repeat End k.

(* the sequence of symbols w matches the pattern r *)
Definition lang (r : re) (w : list sym) : Prop := exists k, langE r (word w k).

(* ---- "`$` used only where nothing mandatory follows it" ------------------------- *)
Fixpoint has_eos (r : re) : bool :=
  match r with
  | Eos => true
  | Cat a b | Alt a b => has_eos a || has_eos b
  | Star a => has_eos a
  | _ => false
  end.

(* r can match the empty sequence of symbols (possibly using `$`) *)
Fixpoint nullE (r : re) : bool :=
  match r with
  | Empty | Eos | Star _ => true
  | Sym _ | Any => false
  | Cat a b => nullE a && nullE b
  | Alt a b => nullE a || nullE b
  end.

Fixpoint eos_ok (r : re) : bool :=
  match r with
  | Cat a b => eos_ok a && eos_ok b && (negb (has_eos a) || nullE b)
  | Alt a b => eos_ok a && eos_ok b
  | Star a => eos_ok a
  | _ => true
  end.

(* ---- tokens and parser -------------------------------------------------------- *)
Inductive modifier := MQuest | MStar | MPlus.

Inductive token :=
| TStr (s : sym)      (* "string" *)
| TDot                (* "wildcard" *)
| TDollar             (* "end_of_sequence" *)
| TMod (m : modifier) (* "modifier" *)
| TBar                (* "bar" *)
| TLP | TRP.          (* "parenthesis" *)

Inductive perr :=
| EMultipleModifiers   (* "Multiple modifiers at position" *)
| EModifierBeforeBar   (* "Modifier before '|'" *)
| EUnmatched           (* "Unmatched parentheses" *)
| EModifierBeforeLP    (* "Modifier before '('" *)
| EModifierAtStart     (* "Modifier at start of expression" *)
| EFuel.               (* never (RegexProofs.parse_fuel_enough) *)

Definition is_empty (r : re) : bool := match r with Empty => true | _ => false end.

Definition apply_mod (md : option modifier) (r : re) : re :=
  match md with
  | Some MStar => Star r
  | Some MPlus => Cat r (Star r)
  | Some MQuest => Alt r Empty
  | None => r
  end.

(* `if ast is None: ast = next_ast else: ast = Concatenation(next_ast, ast)` *)
Definition push (next ast : re) : re := if is_empty ast then next else Cat next ast.

(* `parse_expression(tokens)`: `toks` is the token list REVERSED (the code pops
   from the end); `ast`/`md` are the loop variables.  Returns the AST and the
   remaining (reversed) tokens. *)
Fixpoint parse_expr (fuel : nat) (ast : re) (md : option modifier) (toks : list token)
  : perr + (re * list token) :=
  match fuel with
  | O => inl EFuel
  | S f =>
    let finish :=
      match md with
      | Some _ => match toks with [] => inl EModifierAtStart | _ => inl EModifierBeforeLP end
      | None => inr (ast, toks)
      end in
    let continue next t := parse_expr f (push (apply_mod md next) ast) None t in
    match toks with
    | [] => finish
    | TLP :: _ => finish
    | TMod m :: t =>
      match md with
      | Some _ => inl EMultipleModifiers
      | None => parse_expr f ast (Some m) t
      end
    | TBar :: t =>
      match md with
      | Some _ => inl EModifierBeforeBar
      | None =>
        match parse_expr f Empty None t with
        | inl e => inl e
        | inr (l, t') => parse_expr f (Alt l ast) None t'
        end
      end
    | TRP :: t =>
      match parse_expr f Empty None t with
      | inl e => inl e
      | inr (inner, t') =>
        match t' with
        | [] => inl EUnmatched
        | _ :: t'' => continue inner t''
        end
      end
    | TStr s :: t => continue (Sym s) t
    | TDot :: t => continue Any t
    | TDollar :: t => continue Eos t
    end
  end.

(* `parse_regex` after tokenisation *)
Definition parse_regex (toks : list token) : perr + re :=
  match parse_expr (S (length toks)) Empty None (rev toks) with
  | inl e => inl e
  | inr (ast, []) => inr ast
  | inr (_, _ :: _) => inl EUnmatched
  end.

(* a printer into tokens (fully parenthesised), used by the round-trip theorem and
   by the harness' pattern enumeration *)
Fixpoint print (r : re) : list token :=
  match r with
  | Empty => [TLP; TRP]
  | Sym s => [TStr s]
  | Any => [TDot]
  | Eos => [TDollar]
  | Cat a b => [TLP] ++ print a ++ [TRP; TLP] ++ print b ++ [TRP]
  | Alt a b => [TLP] ++ print a ++ [TRP; TBar; TLP] ++ print b ++ [TRP]
  | Star a => [TLP] ++ print a ++ [TRP; TMod MStar]
  end.
