(* Model of the VALIDATOR's checks on one sequence header
   (vc2_conformance/decoder/sequence_header.py: sequence_header, parse_parameters,
   source_parameters and its eight parts; pseudocode/video_parameters.py: picture_dimensions,
   preset_*; decoder/assertions.py: assert_in_enum, assert_level_constraint), as an extension of
   Model/SeqHeader.v (the header descriptions, the data tables, decode_header).

   The validator is modelled as the ordered LIST OF CHECKS it performs while reading the header
   (`header_checks`): every check is either
     CLevel k v    assert_level_constraint(state, k, v)      -> ValueNotAllowedInLevel (key k)
     CReq e ok     any other test, `ok` already evaluated    -> the exception class e
   in exactly the order of the Python statements, on the values DECODED so far (a preset index
   is looked up in the table, defaults come from the base video format).  `run_checks` stops at
   the first failing one: that is the exception the validator raises.

     header_check lvl ...   the whole function; `lvl sofar k v` decides a level check given
                            the (key, value) pairs recorded so far
     header_accepts         the NON-level checks only (lvl = always allowed)
     level_ok tbl           the level check on abstract columns: some column admits everything
                            recorded so far and the new value (Props/C17.v C17_level_step_iff is
                            this statement for the real ValueSet tables)

   The enumerations of vc2_data_tables against which assert_in_enum tests are PARAMETERS
   (`enums`, dumped from the live modules by the harness), like the tables.  The three enum
   VALUES the code compares with (color_4_2_2 = 1, color_4_2_0 = 2, pictures_are_fields = 1,
   high_quality = 3 inside Gen.Version) are literals; the harness checks them on every run.

   Outside this model (stream level): the byte-for-byte repeat check, the level's data-unit
   sequence matcher, assert_major_version_is_minimal at the end of the sequence.

   No proofs in this file (Proofs/SeqHeaderAcceptProofs.v). *)
From Coq Require Import ZArith List Bool.
From VC2 Require Import Base.PyZ Gen.Consts Gen.Version Model.SeqHeader.
Import ListNotations.
Open Scope Z_scope.

(* ---- exception classes (decoder/exceptions.py) --------------------------------------------- *)
Inductive errclass :=
| E_MajorVersionTooLow | E_MinorVersionNotZero | E_BadProfile | E_ProfileNotSupportedByVersion
| E_BadLevel | E_BadBaseVideoFormat
| E_ZeroPixelFrameSize
| E_BadColorDifferenceSamplingFormat | E_BadSourceSamplingMode
| E_FrameRateHasZeroDenominator | E_FrameRateHasZeroNumerator
| E_BadPresetFrameRateIndex | E_PresetFrameRateNotSupportedByVersion
| E_PixelAspectRatioContainsZeros | E_BadPresetPixelAspectRatio
| E_CleanAreaOutOfRange
| E_BadCustomSignalExcursion_luma | E_BadCustomSignalExcursion_color_diff
| E_BadPresetSignalRange | E_PresetSignalRangeNotSupportedByVersion
| E_BadPresetColorSpec | E_PresetColorSpecNotSupportedByVersion
| E_BadPresetColorPrimaries | E_PresetColorPrimariesNotSupportedByVersion
| E_BadPresetColorMatrix | E_PresetColorMatrixNotSupportedByVersion
| E_BadPresetTransferFunction | E_PresetTransferFunctionNotSupportedByVersion
| E_BadPictureCodingMode
| E_PictureDimensionsNotMultipleOfFrameDimensions
| E_KeyError      (* NOT a ConformanceError: an enum member missing from its data table *)
| E_NotCodable.   (* the description is not one the bitstream can carry (model artefact) *)

Inductive check := CLevel (k : ckey) (v : Z) | CReq (e : errclass) (ok : bool).
Inductive verdict := Accept | Reject (e : errclass) | RejectLevel (k : ckey).

(* the level check given the pairs recorded so far (most recent first: the order of a
   dictionary's entries is irrelevant to `col_admits`) *)
Definition level_oracle := list kv -> ckey -> Z -> bool.

Fixpoint run_checks (lvl : level_oracle) (sofar : list kv) (cs : list check) : verdict :=
  match cs with
  | [] => Accept
  | CLevel k v :: r => if lvl sofar k v then run_checks lvl ((k, v) :: sofar) r else RejectLevel k
  | CReq e ok :: r => if ok then run_checks lvl sofar r else Reject e
  end.

Definition no_level : level_oracle := fun _ _ _ => true.
(* allowed_values_for(LEVEL_CONSTRAINTS, key, state["_level_constrained_values"]) contains value *)
Definition level_ok (tbl : ctable) : level_oracle :=
  fun sofar k v => existsb (fun c => col_admits c sofar && c k v) tbl.

(* ---- enumerations (vc2_data_tables), parameters ---------------------------------------------- *)
Record enums := mkEnums {
  e_profiles : list Z; e_levels : list Z; e_base : list Z; e_pcms : list Z;
  e_cdf : list Z; e_scan : list Z;
  e_frame_rates : list Z; e_pars : list Z; e_signal_ranges : list Z; e_color_specs : list Z;
  e_primaries : list Z; e_matrices : list Z; e_tfs : list Z
}.
(* assert_in_enum: enum(value) does not raise ValueError *)
Definition zmem (x : Z) (l : list Z) : bool := existsb (Z.eqb x) l.

Definition CDF_4_2_2 : Z := 1.
Definition CDF_4_2_0 : Z := 2.
Definition PCM_FIELDS : Z := 1.

Definition is_some {A} (o : option A) : bool := match o with Some _ => true | None => false end.
Definition not_codable : list check := [CReq E_NotCodable false].
(* `if major_version < minimum_required_version: raise` *)
Definition version_ge (major req : Z) : bool := negb (major <? req).

(* ---- pseudocode/video_parameters.py picture_dimensions: (luma_width, luma_height,
        color_diff_width, color_diff_height).  `//= 2` is floor division = Z.div. ------------------ *)
Definition picture_dimensions (v : vparams) (pcm : Z) : Z * Z * Z * Z :=
  let '(fw, fh) := vp_frame_size v in
  let cw := if vp_cdf v =? CDF_4_2_2 then fw / 2 else fw in
  let '(cw, ch) := if vp_cdf v =? CDF_4_2_0 then (cw / 2, fh / 2) else (cw, fh) in
  if pcm =? PCM_FIELDS then (fw, fh / 2, cw, ch / 2) else (fw, fh, cw, ch).

(* the condition of PictureDimensionsNotMultipleOfFrameDimensions, negated (Python `or` chain:
   the zero tests guard the `%`; Z.modulo has Python's sign convention) *)
Definition dims_ok (v : vparams) (pcm : Z) : bool :=
  let '(lw, lh, cw, ch) := picture_dimensions v pcm in
  let '(fw, fh) := vp_frame_size v in
  negb ((lh =? 0) || (lw =? 0) || (ch =? 0) || (cw =? 0)
        || negb (fh mod lh =? 0) || negb (fw mod lw =? 0)
        || negb (fh mod ch =? 0) || negb (fw mod cw =? 0)).

(* the condition of CleanAreaOutOfRange, negated *)
Definition clean_ok (v : vparams) : bool :=
  let '(fw, fh) := vp_frame_size v in
  let '(cw, ch, topo, lefto) := vp_clean v in
  (cw + lefto <=? fw) && (ch + topo <=? fh).

(* ---- the eight parts of source_parameters: the checks made and the updated video parameters --- *)
Definition chk_frame_size (g : gopt) (v : vparams) : list check * vparams :=
  match g with
  | GDefault => ([CLevel K_custom_dimensions_flag 0], v)
  | GExplicit [w; h] =>
      ([CLevel K_custom_dimensions_flag 1; CLevel K_frame_width w; CLevel K_frame_height h;
        CReq E_ZeroPixelFrameSize (negb ((w =? 0) || (h =? 0)))],
       set_frame_size (w, h) v)
  | _ => (not_codable, v)
  end.

Definition chk_cdf (E : enums) (g : gopt) (v : vparams) : list check * vparams :=
  match g with
  | GDefault => ([CLevel K_custom_color_diff_format_flag 0], v)
  | GExplicit [i] =>
      ([CLevel K_custom_color_diff_format_flag 1;
        CReq E_BadColorDifferenceSamplingFormat (zmem i (e_cdf E));
        CLevel K_color_diff_format_index i],
       set_cdf i v)
  | _ => (not_codable, v)
  end.

Definition chk_scan (E : enums) (g : gopt) (v : vparams) : list check * vparams :=
  match g with
  | GDefault => ([CLevel K_custom_scan_format_flag 0], v)
  | GExplicit [i] =>
      ([CLevel K_custom_scan_format_flag 1;
        CReq E_BadSourceSamplingMode (zmem i (e_scan E));
        CLevel K_source_sampling i],
       set_scan i v)
  | _ => (not_codable, v)
  end.

Definition chk_frame_rate (T : tables) (E : enums) (major : Z) (g : gopt) (v : vparams)
    : list check * vparams :=
  match g with
  | GDefault => ([CLevel K_custom_frame_rate_flag 0], v)
  | GPreset i =>
      if i =? 0 then (not_codable, v) else
      let r := obind (assoc i (preset_frame_rates T)) l2 in
      ([CLevel K_custom_frame_rate_flag 1; CLevel K_frame_rate_index i;
        CReq E_BadPresetFrameRateIndex (zmem i (e_frame_rates E));
        CReq E_PresetFrameRateNotSupportedByVersion
             (version_ge major (preset_frame_rate_version_implication i));
        CReq E_KeyError (is_some r)],
       match r with Some x => set_frame_rate x v | None => v end)
  | GExplicit [n; d] =>
      ([CLevel K_custom_frame_rate_flag 1; CLevel K_frame_rate_index 0;
        CLevel K_frame_rate_numer n; CLevel K_frame_rate_denom d;
        CReq E_FrameRateHasZeroDenominator (negb (d =? 0));
        CReq E_FrameRateHasZeroNumerator (negb (n =? 0))],
       set_frame_rate (n, d) v)
  | _ => (not_codable, v)
  end.

Definition chk_par (T : tables) (E : enums) (g : gopt) (v : vparams) : list check * vparams :=
  match g with
  | GDefault => ([CLevel K_custom_pixel_aspect_ratio_flag 0], v)
  | GPreset i =>
      if i =? 0 then (not_codable, v) else
      let r := obind (assoc i (preset_pars T)) l2 in
      ([CLevel K_custom_pixel_aspect_ratio_flag 1; CLevel K_pixel_aspect_ratio_index i;
        CReq E_BadPresetPixelAspectRatio (zmem i (e_pars E));
        CReq E_KeyError (is_some r)],
       match r with Some x => set_par x v | None => v end)
  | GExplicit [n; d] =>
      ([CLevel K_custom_pixel_aspect_ratio_flag 1; CLevel K_pixel_aspect_ratio_index 0;
        CLevel K_pixel_aspect_ratio_numer n; CLevel K_pixel_aspect_ratio_denom d;
        CReq E_PixelAspectRatioContainsZeros (negb ((n =? 0) || (d =? 0)))],
       set_par (n, d) v)
  | _ => (not_codable, v)
  end.

(* the CleanAreaOutOfRange test is made whether or not a custom clean area is coded
   (a custom frame size smaller than the base format's clean area fails it) *)
Definition chk_clean (g : gopt) (v : vparams) : list check * vparams :=
  match g with
  | GDefault =>
      ([CLevel K_custom_clean_area_flag 0; CReq E_CleanAreaOutOfRange (clean_ok v)], v)
  | GExplicit [cw; ch; topo; lefto] =>
      let v' := set_clean (cw, ch, topo, lefto) v in
      ([CLevel K_custom_clean_area_flag 1; CLevel K_clean_width cw; CLevel K_clean_height ch;
        CLevel K_left_offset lefto; CLevel K_top_offset topo;
        CReq E_CleanAreaOutOfRange (clean_ok v')],
       v')
  | _ => (not_codable, v)
  end.

(* only the two EXCURSIONS are tested (`< 1`), each right after its own level check *)
Definition chk_signal (T : tables) (E : enums) (major : Z) (g : gopt) (v : vparams)
    : list check * vparams :=
  match g with
  | GDefault => ([CLevel K_custom_signal_range_flag 0], v)
  | GPreset i =>
      if i =? 0 then (not_codable, v) else
      let r := obind (assoc i (preset_signal_ranges T)) l4 in
      ([CLevel K_custom_signal_range_flag 1; CLevel K_custom_signal_range_index i;
        CReq E_BadPresetSignalRange (zmem i (e_signal_ranges E));
        CReq E_PresetSignalRangeNotSupportedByVersion
             (version_ge major (preset_signal_range_version_implication i));
        CReq E_KeyError (is_some r)],
       match r with Some x => set_signal x v | None => v end)
  | GExplicit [lo; le; co; ce] =>
      ([CLevel K_custom_signal_range_flag 1; CLevel K_custom_signal_range_index 0;
        CLevel K_luma_offset lo; CLevel K_luma_excursion le;
        CReq E_BadCustomSignalExcursion_luma (negb (le <? 1));
        CLevel K_color_diff_offset co; CLevel K_color_diff_excursion ce;
        CReq E_BadCustomSignalExcursion_color_diff (negb (ce <? 1))],
       set_signal (lo, le, co, ce) v)
  | _ => (not_codable, v)
  end.

(* color_primaries / color_matrix / transfer_function: {flag: True, index: i} is GExplicit [i] *)
Definition chk_nested (flag ikey : ckey) (en : list Z) (ebad ever : errclass) (imp : Z -> Z)
    (major : Z) (g : gopt) (cur : Z) : list check * Z :=
  match g with
  | GDefault => ([CLevel flag 0], cur)
  | GExplicit [i] =>
      ([CLevel flag 1; CReq ebad (zmem i en); CLevel ikey i;
        CReq ever (version_ge major (imp i))],
       i)
  | _ => (not_codable, cur)
  end.

Definition l3 (l : list Z) : option (Z * Z * Z) :=
  match l with [a; b; c] => Some (a, b, c) | _ => None end.

Definition chk_color (T : tables) (E : enums) (major : Z) (cs : csopt) (v : vparams)
    : list check * vparams :=
  match cs with
  | CSDefault => ([CLevel K_custom_color_spec_flag 0], v)
  | CSPreset i =>
      if i =? 0 then (not_codable, v) else
      let r := obind (assoc i (preset_color_specs T)) l3 in
      ([CLevel K_custom_color_spec_flag 1;
        CReq E_BadPresetColorSpec (zmem i (e_color_specs E));
        CLevel K_color_spec_index i;
        CReq E_KeyError (is_some r);
        CReq E_PresetColorSpecNotSupportedByVersion
             (version_ge major (preset_color_spec_version_implication i))],
       match r with
       | Some (p, m, t) => set_tf t (set_matrix m (set_primaries p v))
       | None => v
       end)
  | CSCustom gp gm gt =>
      let r := obind (assoc 0 (preset_color_specs T)) l3 in
      let '(p0, m0, t0) := match r with Some x => x | None => (vp_primaries v, vp_matrix v, vp_tf v) end in
      let '(c1, p) := chk_nested K_custom_color_primaries_flag K_color_primaries_index (e_primaries E)
                        E_BadPresetColorPrimaries E_PresetColorPrimariesNotSupportedByVersion
                        preset_color_primaries_version_implication major gp p0 in
      let '(c2, m) := chk_nested K_custom_color_matrix_flag K_color_matrix_index (e_matrices E)
                        E_BadPresetColorMatrix E_PresetColorMatrixNotSupportedByVersion
                        preset_color_matrix_version_implication major gm m0 in
      let '(c3, t) := chk_nested K_custom_transfer_function_flag K_transfer_function_index (e_tfs E)
                        E_BadPresetTransferFunction E_PresetTransferFunctionNotSupportedByVersion
                        preset_transfer_function_version_implication major gt t0 in
      ([CLevel K_custom_color_spec_flag 1;
        CReq E_BadPresetColorSpec (zmem 0 (e_color_specs E));
        CLevel K_color_spec_index 0;
        CReq E_KeyError (is_some r)] ++ c1 ++ c2 ++ c3,
       set_tf t (set_matrix m (set_primaries p v)))
  end.

(* source_parameters after set_source_defaults *)
Definition chk_source (T : tables) (E : enums) (major : Z) (sp : srcparams) (v0 : vparams)
    : list check * vparams :=
  let '(c1, v1) := chk_frame_size (sp_frame_size sp) v0 in
  let '(c2, v2) := chk_cdf E (sp_cdf sp) v1 in
  let '(c3, v3) := chk_scan E (sp_scan sp) v2 in
  let '(c4, v4) := chk_frame_rate T E major (sp_frame_rate sp) v3 in
  let '(c5, v5) := chk_par T E (sp_par sp) v4 in
  let '(c6, v6) := chk_clean (sp_clean sp) v5 in
  let '(c7, v7) := chk_signal T E major (sp_signal sp) v6 in
  let '(c8, v8) := chk_color T E major (sp_color sp) v7 in
  (c1 ++ c2 ++ c3 ++ c4 ++ c5 ++ c6 ++ c7 ++ c8, v8).

(* parse_parameters *)
Definition chk_parse_parameters (E : enums) (major minor : Z) (h : header) : list check :=
  [CReq E_MajorVersionTooLow (version_ge major MINIMUM_MAJOR_VERSION);
   CReq E_MinorVersionNotZero (minor =? 0);
   CReq E_BadProfile (zmem (h_profile h) (e_profiles E));
   CReq E_ProfileNotSupportedByVersion (version_ge major (profile_version_implication (h_profile h)));
   CReq E_BadLevel (zmem (h_level h) (e_levels E));
   CLevel K_level (h_level h); CLevel K_profile (h_profile h);
   CLevel K_major_version major; CLevel K_minor_version minor].

(* sequence_header(state) up to the byte-for-byte comparison *)
Definition header_checks (T : tables) (E : enums) (major minor : Z) (h : header) : list check :=
  chk_parse_parameters E major minor h
  ++ [CReq E_BadBaseVideoFormat (zmem (h_base h) (e_base E)); CLevel K_base_video_format (h_base h)]
  ++ match set_source_defaults T (h_base h) with
     | None => [CReq E_KeyError false]
     | Some v0 =>
         let '(cs, v) := chk_source T E major (h_src h) v0 in
         cs ++ [CReq E_BadPictureCodingMode (zmem (h_pcm h) (e_pcms E));
                CLevel K_picture_coding_mode (h_pcm h);
                CReq E_PictureDimensionsNotMultipleOfFrameDimensions (dims_ok v (h_pcm h))]
     end.

Definition header_check (T : tables) (E : enums) (lvl : level_oracle) (major minor : Z) (h : header) : verdict :=
  run_checks lvl [] (header_checks T E major minor h).

(* the validator's NON-level checks *)
Definition header_accepts (T : tables) (E : enums) (major minor : Z) (h : header) : verdict :=
  header_check T E no_level major minor h.

(* ---- what the acceptance theorems assume of the TARGET format (not of any header) ------------- *)
Definition nonzero2 (p : Z * Z) : bool := let '(a, b) := p in negb (a =? 0) && negb (b =? 0).
Definition excursions_ok (s : Z * Z * Z * Z) : bool :=
  let '(_, le, _, ce) := s in negb (le <? 1) && negb (ce <? 1).

(* exactly the validator's tests on decoded values, plus membership of every enum-typed entry:
   non-zero frame rate / pixel aspect ratio parts, clean area inside the frame, excursions >= 1,
   non-zero luma / colour-difference picture sizes dividing the frame size (this implies a
   non-zero frame size: dims_ok_frame_nonzero) *)
Definition format_valid (E : enums) (v : vparams) (pcm : Z) : bool :=
  nonzero2 (vp_frame_rate v) && nonzero2 (vp_par v) && clean_ok v && excursions_ok (vp_signal v)
  && dims_ok v pcm
  && zmem (vp_cdf v) (e_cdf E) && zmem (vp_scan v) (e_scan E)
  && zmem (vp_primaries v) (e_primaries E) && zmem (vp_matrix v) (e_matrices E)
  && zmem (vp_tf v) (e_tfs E) && zmem pcm (e_pcms E).

(* ... and of the configuration's profile and level (`features` of Model/SeqHeader.v) *)
Definition config_valid (E : enums) (cf : features) : bool :=
  format_valid E (cf_video cf) (cf_pcm cf)
  && zmem (cf_profile cf) (e_profiles E) && zmem (cf_level cf) (e_levels E).

(* every key of a data table is a member of its enumeration *)
Definition keys_in {A} (ps : list (Z * A)) (en : list Z) : bool :=
  forallb (fun p => zmem (fst p) en) ps.
Definition enums_cover (T : tables) (E : enums) : bool :=
  keys_in (base_formats T) (e_base E) && keys_in (preset_frame_rates T) (e_frame_rates E)
  && keys_in (preset_pars T) (e_pars E) && keys_in (preset_signal_ranges T) (e_signal_ranges E)
  && keys_in (preset_color_specs T) (e_color_specs E).

(* the major_version the validator's `...NotSupportedByVersion` tests demand of this header *)
Definition preset_req (imp : Z -> Z) (g : gopt) : Z :=
  match g with GPreset i => imp i | _ => MINIMUM_MAJOR_VERSION end.
Definition nested_req (imp : Z -> Z) (g : gopt) : Z :=
  match g with GExplicit [i] => imp i | _ => MINIMUM_MAJOR_VERSION end.
Definition color_req (cs : csopt) : Z :=
  match cs with
  | CSDefault => MINIMUM_MAJOR_VERSION
  | CSPreset i => preset_color_spec_version_implication i
  | CSCustom p m t =>
      Z.max (nested_req preset_color_primaries_version_implication p)
        (Z.max (nested_req preset_color_matrix_version_implication m)
               (nested_req preset_transfer_function_version_implication t))
  end.
Definition src_required_version (sp : srcparams) : Z :=
  Z.max (preset_req preset_frame_rate_version_implication (sp_frame_rate sp))
    (Z.max (preset_req preset_signal_range_version_implication (sp_signal sp))
           (color_req (sp_color sp))).
Definition header_required_version (h : header) : Z :=
  Z.max MINIMUM_MAJOR_VERSION
    (Z.max (profile_version_implication (h_profile h)) (src_required_version (h_src h))).

(* the encoding of a format that codes every group explicitly (what the enumeration yields last
   when the level leaves everything open): used to show that format_valid is NECESSARY *)
Definition explicit_src (v : vparams) : srcparams :=
  mkSrc (GExplicit (t2 (vp_frame_size v))) (GExplicit [vp_cdf v]) (GExplicit [vp_scan v])
        (GExplicit (t2 (vp_frame_rate v))) (GExplicit (t2 (vp_par v)))
        (GExplicit (t4 (vp_clean v))) (GExplicit (t4 (vp_signal v)))
        (CSCustom (GExplicit [vp_primaries v]) (GExplicit [vp_matrix v]) (GExplicit [vp_tf v])).

(* the pairs handed to assert_level_constraint, in order *)
Definition level_kvs (cs : list check) : list kv :=
  flat_map (fun c => match c with CLevel k v => [(k, v)] | CReq _ _ => [] end) cs.
Definition reqs_ok (cs : list check) : bool :=
  forallb (fun c => match c with CLevel _ _ => true | CReq _ ok => ok end) cs.
(* coded_keys with the two version entries where parse_parameters checks them *)
Definition coded_keys_v (major minor : Z) (h : header) : list kv :=
  match coded_keys h with
  | l :: p :: r => l :: p :: (K_major_version, major) :: (K_minor_version, minor) :: r
  | r => r
  end.

(* ---- comparison with the implementation's verdict (correspondence run) ------------------------ *)
Scheme Equality for errclass.
Definition verdict_eqb (a b : verdict) : bool :=
  match a, b with
  | Accept, Accept => true
  | Reject e, Reject f => errclass_beq e f
  | RejectLevel k, RejectLevel j => ckey_beq k j
  | _, _ => false
  end.
