(* Model of the integer/geometry tail of vc2_conformance/picture_generators.py and
   color_conversion.py.  The float pipeline (numpy, colour matrices, transfer functions,
   PIL resize) is NOT modelled: the model starts where integers appear.

   * float_to_int_clipped: np.clip(a, 0, 2 ** intlog2(excursion + 1) - 1) applied to
     WHATEVER integer np.round(..).astype(int) produced (also the garbage numpy produces
     for NaN/inf/overflow) -- `clip_sample`.
   * progressive_to_pictures: progressive_to_interlaced / progressive_to_split_fields /
     interleave_fields as functions on lists of frames, a frame being the list of its rows
     (rows are opaque: only the line structure matters).
   * xyz_to_native / mid_gray / white_noise numbering: enumerate from 0.
   * the number of frames each generator yields before progressive_to_pictures.
   * from_444: dimensions of the subsampled chroma planes (None = numpy broadcast error on
     odd sizes), to be compared with dimensions_and_depths (Model/FileFormat.v).
   No proofs here (Proofs/PicGenProofs.v). *)
From Coq Require Import ZArith List Bool.
From VC2 Require Import Base.PyZ Gen.VC2Math Model.FileFormat.
Import ListNotations.
Open Scope Z_scope.

(* ---- color_conversion.float_to_int_clipped (after the float part) ----------------------- *)
(* np.clip(a, lo, hi) = minimum(maximum(a, lo), hi) = vc2_math.clip's formula *)
Definition clip_sample (excursion a : Z) : Z :=
  clip a 0 (py_pow 2 (intlog2 (excursion + 1)) - 1).

(* mid_gray: 1 << (depth_bits - 1) *)
Definition mid_gray_value (depth : Z) : Z := py_shl 1 (depth - 1).

(* ---- line structure ------------------------------------------------------------------------- *)
Section Lines.
  Context {R : Type}.           (* a row of samples (opaque) *)
  Definition frame := list R.   (* rows top to bottom *)

  (* picture[first_row::2] for first_row in {0, 1} *)
  Fixpoint every_other (take : bool) (rows : list R) : list R :=
    match rows with
    | [] => []
    | r :: rest => if take then r :: every_other false rest else every_other true rest
    end.
  Definition rows_from (first_row : Z) (f : frame) : frame := every_other (first_row =? 0) f.

  (* first_row_indices = [0, 1] if top_field_first else [1, 0] *)
  Definition first_row_indices (tff : bool) : Z * Z := if tff then (0, 1) else (1, 0).

  (* zip(cycle(first_row_indices), pictures): one field per incoming frame *)
  Fixpoint to_interlaced_from (cur nxt : Z) (frames : list frame) : list frame :=
    match frames with
    | [] => []
    | f :: rest => rows_from cur f :: to_interlaced_from nxt cur rest
    end.
  Definition progressive_to_interlaced (tff : bool) (frames : list frame) : list frame :=
    let '(a, b) := first_row_indices tff in to_interlaced_from a b frames.

  (* two fields per incoming frame *)
  Definition progressive_to_split_fields (tff : bool) (frames : list frame) : list frame :=
    let '(a, b) := first_row_indices tff in
    flat_map (fun f => [rows_from a f; rows_from b f]) frames.

  (* interleaved[0::2] = top; interleaved[1::2] = bottom (equal heights) *)
  Fixpoint weave (top bottom : frame) : frame :=
    match top, bottom with
    | t :: top', b :: bottom' => t :: b :: weave top' bottom'
    | _, _ => []
    end.

  (* zip(it, it): successive pairs, a trailing single field is dropped *)
  Fixpoint interleave_fields (tff : bool) (fields : list frame) : list frame :=
    match fields with
    | f1 :: f2 :: rest =>
        (if tff then weave f1 f2 else weave f2 f1) :: interleave_fields tff rest
    | _ => []
    end.

  (* pcm: 0 = pictures_are_frames, 1 = fields; interlaced: source_sampling *)
  Definition progressive_to_pictures (pcm : Z) (interlaced tff : bool) (frames : list frame) : list frame :=
    if pcm =? 0 then
      if interlaced then interleave_fields tff (progressive_to_interlaced tff frames) else frames
    else
      if interlaced then progressive_to_interlaced tff frames
      else progressive_to_split_fields tff frames.

  (* xyz_to_native: enumerate(pictures) *)
  Fixpoint number_from (n : Z) (pics : list frame) : list (Z * frame) :=
    match pics with
    | [] => []
    | p :: rest => (n, p) :: number_from (n + 1) rest
    end.
  Definition xyz_to_native (pics : list frame) : list (Z * frame) := number_from 0 pics.
End Lines.

(* ---- how many frames each generator yields into progressive_to_pictures -------------------- *)
Inductive generator := MovingSprite | StaticSprite | LinearRamps | MidGray | WhiteNoise.

(* moving_sprite: frames_to_samples = num_frames * (2 if interlaced else 1);
   static_sprite / linear_ramps: yield once, and once more when interlaced *)
Definition frames_yielded (g : generator) (interlaced : bool) (num_frames : Z) : Z :=
  match g with
  | MovingSprite => num_frames * (if interlaced then 2 else 1)
  | StaticSprite | LinearRamps => if interlaced then 2 else 1
  | MidGray | WhiteNoise => 0     (* these two do not go through progressive_to_pictures *)
  end.

(* number of pictures a generator finally yields.  mid_gray: 1, or 2 for fields;
   white_noise: num_frames, doubled for fields; the others: by progressive_to_pictures
   (which only depends on the number of frames: see Proofs, `pictures_count`) *)
Definition pictures_yielded (g : generator) (pcm : Z) (interlaced : bool) (num_frames : Z) : Z :=
  match g with
  | MidGray => if pcm =? 1 then 2 else 1
  | WhiteNoise => if pcm =? 1 then num_frames * 2 else num_frames
  | _ =>
      let n := frames_yielded g interlaced num_frames in
      if pcm =? 0 then (if interlaced then py_div n 2 else n)
      else (if interlaced then n else 2 * n)
  end.

(* ---- dimensions ------------------------------------------------------------------------------- *)
(* height of a picture coming out of progressive_to_pictures for a frame of h lines:
   frames stay whole (interleaving two h/2 fields), fields are every other line *)
Definition picture_height (pcm : Z) (interlaced : bool) (h : Z) : Z :=
  if pcm =? 0 then (if interlaced then 2 * py_div h 2 else h) else py_div h 2.

(* from_444 on a (h, w) plane: None = numpy cannot broadcast (odd size) *)
Definition from_444_dims (cdf : Z) (hw : Z * Z) : option (Z * Z) :=
  let '(h, w) := hw in
  if cdf =? 0 then Some (h, w)
  else if cdf =? 1 then (if py_mod w 2 =? 0 then Some (h, py_div w 2) else None)
  else if cdf =? 2 then (if (py_mod w 2 =? 0) && (py_mod h 2 =? 0) then Some (py_div h 2, py_div w 2) else None)
  else None.

(* the (width, height) of Y and of C1/C2 of a generated picture; the sprite/ramp generators
   build full frames of frame_height x frame_width, split them, then subsample *)
Definition generated_dims (f : format) (pcm : Z) (interlaced : bool) : option ((Z * Z) * (Z * Z)) :=
  let h := picture_height pcm interlaced (frame_height f) in
  let w := frame_width f in
  match from_444_dims (cdf_index f) (h, w) with
  | Some (ch, cw) => Some ((w, h), (cw, ch))
  | None => None
  end.

(* regular format: frame size a multiple of the subsampling and, for interlaced sources or
   field coding, the height a multiple of twice the vertical subsampling *)
Definition x_sub (cdf : Z) : Z := if cdf =? 0 then 1 else 2.
Definition y_sub (cdf : Z) : Z := if cdf =? 2 then 2 else 1.
Definition regular (f : format) (pcm : Z) (interlaced : bool) : bool :=
  (0 <=? cdf_index f) && (cdf_index f <=? 2) &&
  (0 <? frame_width f) && (0 <? frame_height f) &&
  (py_mod (frame_width f) (x_sub (cdf_index f)) =? 0) &&
  (py_mod (frame_height f) (y_sub (cdf_index f) * (if (pcm =? 1) || interlaced then 2 else 1)) =? 0).
