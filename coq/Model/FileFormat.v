(* Model of vc2_conformance/file_format.py (raw planar picture files) and of
   vc2_conformance/dimensions_and_depths.py (component sizes, depths, bytes per sample).

   Mirrors the mechanism of the code:
   * compute_dimensions_and_depths: picture_dimensions / video_depth of the pseudocode,
     bytes_per_sample = 1 << intlog2((depth_bits + 7) // 8)   (intlog2 = Gen.VC2Math, tie T)
   * write_picture: per component (Y, C1, C2 in this order), per sample, bytes_per_sample
     bytes, byte k = (value >> 8k) & 0xFF (the code shifts the whole array in place)
   * read_picture: per component read h*w*bytes_per_sample bytes (short file: ValueError),
     zero the bytes above msb_byte = (depth+7)//8 - 1, mask byte msb_byte with
     (1 << depth%8) - 1 when depth%8 <> 0, then accumulate from the top byte down
     values = (values << 8) + byte.
   A component is the row-major list of its samples (h*w of them); bytes are Z in 0..255.
   No proofs here (Proofs/FileFormatProofs.v). *)
From Coq Require Import ZArith List Bool.
From VC2 Require Import Base.PyZ Gen.VC2Math.
Import ListNotations.
Open Scope Z_scope.

(* ---- dimensions_and_depths.py ------------------------------------------------------ *)

(* the video parameters the file format depends on, the rest kept as an opaque list
   (frame rate, aspect ratio, clean area, offsets, colour indices, top_field_first...) *)
Record format := mkFormat {
  frame_width : Z;
  frame_height : Z;
  cdf_index : Z;          (* ColorDifferenceSamplingFormats: 0 = 4:4:4, 1 = 4:2:2, 2 = 4:2:0 *)
  luma_excursion : Z;
  color_diff_excursion : Z;
  other_params : list Z
}.

Record dims := mkDims { d_width : Z; d_height : Z; d_depth : Z; d_bps : Z }.

(* pcm: PictureCodingModes, 0 = pictures_are_frames, 1 = pictures_are_fields *)
Definition luma_dims_wh (f : format) (pcm : Z) : Z * Z :=
  let w := frame_width f in
  let h := frame_height f in
  let h := if pcm =? 1 then py_div h 2 else h in
  (w, h).

Definition color_diff_dims_wh (f : format) (pcm : Z) : Z * Z :=
  let w := frame_width f in
  let h := frame_height f in
  let w := if cdf_index f =? 1 then py_div w 2 else w in
  let '(w, h) := if cdf_index f =? 2 then (py_div w 2, py_div h 2) else (w, h) in
  let h := if pcm =? 1 then py_div h 2 else h in
  (w, h).

Definition depth_of_excursion (exc : Z) : Z := intlog2 (exc + 1).

Definition bytes_per_sample (depth : Z) : Z :=
  py_shl 1 (intlog2 (py_div (depth + 7) 8)).

Definition mk_dims (wh : Z * Z) (depth : Z) : dims :=
  mkDims (fst wh) (snd wh) depth (bytes_per_sample depth).

(* [Y; C1; C2] -- the OrderedDict order, which is the plane order of the file *)
Definition compute_dimensions_and_depths (f : format) (pcm : Z) : list dims :=
  let ld := depth_of_excursion (luma_excursion f) in
  let cd := depth_of_excursion (color_diff_excursion f) in
  [ mk_dims (luma_dims_wh f pcm) ld;
    mk_dims (color_diff_dims_wh f pcm) cd;
    mk_dims (color_diff_dims_wh f pcm) cd ].

Definition num_samples (d : dims) : nat := Z.to_nat (d_width d * d_height d).

(* ---- write_picture ------------------------------------------------------------------ *)

(* for byte in range(n): out = values & 0xFF; values >>= 8 *)
Fixpoint le_bytes (n : nat) (v : Z) : list Z :=
  match n with
  | O => []
  | S k => Z.land v 255 :: le_bytes k (py_shr v 8)
  end.

Definition pack (depth v : Z) : list Z := le_bytes (Z.to_nat (bytes_per_sample depth)) v.

Definition write_component (depth : Z) (samples : list Z) : list Z :=
  flat_map (pack depth) samples.

(* a picture = its three components; the file = the planes one after the other *)
Fixpoint write_picture (ds : list dims) (pic : list (list Z)) : list Z :=
  match ds, pic with
  | d :: ds', c :: pic' => write_component (d_depth d) c ++ write_picture ds' pic'
  | _, _ => []
  end.

(* ---- read_picture ------------------------------------------------------------------- *)

(* data[:, :, msb_byte+1:] = 0 ; data[:, :, msb_byte] &= (1 << depth%8) - 1 when depth%8 != 0;
   i is the index of the head of the list within the sample *)
Fixpoint mask_at (depth i : Z) (bs : list Z) : list Z :=
  match bs with
  | [] => []
  | b :: r =>
      let msb_byte := py_div (depth + 7) 8 - 1 in
      (if i >? msb_byte then 0
       else if (i =? msb_byte) && negb (py_mod depth 8 =? 0)
            then Z.land b (py_shl 1 (py_mod depth 8) - 1)
            else b) :: mask_at depth (i + 1) r
  end.

Definition mask_bytes (depth : Z) (bs : list Z) : list Z := mask_at depth 0 bs.

(* for byte in reversed(range(n)): values <<= 8 (not the first time); values += data[byte] *)
Definition le_value (bs : list Z) : Z :=
  fold_left (fun v b => py_shl v 8 + b) (rev bs) 0.

Definition unpack (depth : Z) (bs : list Z) : Z := le_value (mask_bytes depth bs).

(* n samples of bps bytes each; None = the buffer is too short (numpy reshape: ValueError);
   returns the samples and the unread rest of the file *)
Fixpoint read_samples (depth : Z) (n : nat) (bytes : list Z) : option (list Z * list Z) :=
  match n with
  | O => Some ([], bytes)
  | S k =>
      let bps := Z.to_nat (bytes_per_sample depth) in
      if (length bytes <? bps)%nat then None
      else match read_samples depth k (skipn bps bytes) with
           | Some (vs, rest) => Some (unpack depth (firstn bps bytes) :: vs, rest)
           | None => None
           end
  end.

Fixpoint read_picture (ds : list dims) (bytes : list Z) : option (list (list Z) * list Z) :=
  match ds with
  | [] => Some ([], bytes)
  | d :: ds' =>
      match read_samples (d_depth d) (num_samples d) bytes with
      | None => None
      | Some (c, rest) =>
          match read_picture ds' rest with
          | None => None
          | Some (cs, rest') => Some (c :: cs, rest')
          end
      end
  end.

(* ---- metadata (JSON is trusted: the model keeps the values) ------------------------- *)

(* picture number is stored as str(n) and read back with int(): modelled as the identity
   on Z (decimal printing/parsing of CPython and the json module are trusted) *)
Definition picnum_to_string (n : Z) : Z := n.
Definition picnum_of_string (s : Z) : Z := s.

Record metadata := mkMeta { m_format : format; m_pcm : Z; m_picnum : Z }.

Definition write_metadata (f : format) (pcm : Z) (picnum : Z) : metadata :=
  mkMeta f pcm (picnum_to_string picnum).
Definition read_metadata (m : metadata) : format * Z * Z :=
  (m_format m, m_pcm m, picnum_of_string (m_picnum m)).

(* in-range picture: right number of samples per component, each within the depth *)
Definition sample_ok (depth v : Z) : bool := (0 <=? v) && (v <? 2 ^ depth).
Fixpoint picture_ok (ds : list dims) (pic : list (list Z)) : bool :=
  match ds, pic with
  | [], [] => true
  | d :: ds', c :: pic' =>
      (length c =? num_samples d)%nat && forallb (sample_ok (d_depth d)) c && picture_ok ds' pic'
  | _, _ => false
  end.
