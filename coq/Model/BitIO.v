(* Model of vc2_conformance/bitstream/io.py (BitstreamWriter, BitstreamReader,
   to_bit_offset/from_bit_offset) and vc2_conformance/decoder/io.py (the
   validator's reader) as byte-level state machines, mirroring the fields of the
   Python objects.  Hand model (tie C): tools/harness/C20.py runs these
   definitions and the real classes on the same inputs.  NO proofs here.

   Files are `list Z` (one entry per byte, 0..255) standing for an io.BytesIO:
   read(1) at or past the end returns b"" and does not move, write past the end
   zero-fills, seek(negative) raises ValueError.

   Exceptions are result values:
     EOutOfRange    bitstream.exceptions.OutOfRangeError
     EValue         ValueError  (0 written past a bounded block; negative file seek)
     EEof           EOFError                (BitstreamReader)
     EUnexpectedEOS decoder.exceptions.UnexpectedEndOfStream (decoder reader)
     EExc           Exception / KeyError ("Cannot nest bounded blocks", "Not in
                    bounded block.", "Cannot seek() past end ...", finish without start)
     EAssert        AssertionError
     EFuel          model artefact: the exp-Golomb loop ran out of fuel (proved
                    impossible: Proofs/BitIOProofs.v *_read_uint_no_fuel)
   A raising operation still returns the (already mutated) state, as in Python. *)
From Coq Require Import ZArith List Bool.
From VC2 Require Import Base.PyZ.
Import ListNotations.
Open Scope Z_scope.

Inductive err := EOutOfRange | EValue | EEof | EUnexpectedEOS | EExc | EAssert | EFuel.
Inductive res (A : Type) := Ok (a : A) | Err (e : err).
Arguments Ok {A} a.
Arguments Err {A} e.

(* ---------------------------------------------------------------- bit lists *)

(* bits n-1 .. 0 of v, most significant first: [(v >> i) & 1 for i in range(n-1,-1,-1)] *)
Fixpoint nbits_list (n : nat) (v : Z) : list bool :=
  match n with
  | O => []
  | S k => Z.testbit v (Z.of_nat k) :: nbits_list k v
  end.
Definition bits8 (c : Z) : list bool := nbits_list 8 c.
Definition bytes_bits (l : list Z) : list bool := flat_map bits8 l.

(* value of a bit list read MSB first, starting from acc *)
Definition bits_val (acc : Z) (l : list bool) : Z := fold_left (fun a b => 2 * a + b2z b) l acc.

Fixpoint interleave0 (l : list bool) : list bool :=
  match l with [] => [] | b :: t => false :: b :: interleave0 t end.

(* the bits BitstreamWriter.write_uint passes to write_bit, in order *)
Definition uint_bits (v : Z) : list bool :=
  interleave0 (nbits_list (Z.to_nat (bit_length (v + 1) - 1)) (v + 1)) ++ [true].
Definition sint_bits (v : Z) : list bool :=
  uint_bits (Z.abs v) ++ (if v =? 0 then [] else [v <? 0]).
Definition bitarray_bits (bits : Z) (value : list bool) : list bool :=
  value ++ repeat false (Z.to_nat (bits - Z.of_nat (length value))).
Definition bytes_padded (num_bytes : Z) (value : list Z) : list Z :=
  value ++ repeat 0 (Z.to_nat (num_bytes - Z.of_nat (length value))).

Fixpoint bits_to_bytes (l : list Z) : list Z :=
  match l with
  | a :: b :: c :: d :: e :: f :: g :: h :: t =>
      (((((((a * 2 + b) * 2 + c) * 2 + d) * 2 + e) * 2 + f) * 2 + g) * 2 + h) :: bits_to_bytes t
  | _ => []
  end.

(* ------------------------------------------------------------------ offsets *)
Definition to_bit_offset (bytes bits : Z) : Z := (bytes * 8) + (7 - bits).
Definition from_bit_offset (total_bits : Z) : Z * Z := (total_bits / 8, 7 - total_bits mod 8).

(* --------------------------------------------------------------- BytesIO *)
Definition flen (f : list Z) : Z := Z.of_nat (length f).
Definition nth_z (f : list Z) (i : Z) : option Z :=
  if i <? 0 then None else nth_error f (Z.to_nat i).
(* f.seek(pos); f.write(bytes([b])) *)
Definition fwrite (f : list Z) (pos : Z) (b : Z) : list Z :=
  if pos <=? flen f
  then firstn (Z.to_nat pos) f ++ b :: skipn (S (Z.to_nat pos)) f
  else f ++ repeat 0 (Z.to_nat (pos - flen f)) ++ [b].

(* seek() inside a bounded block: the new value of _bits_remaining (shared
   verbatim by reader and writer) *)
Definition seek_adjust (rem : option Z) (cur_offset new_offset : Z) : res (option Z) :=
  match rem with
  | None => Ok None
  | Some r =>
      let delta := new_offset - cur_offset in
      if (delta >? 0) && (r - delta <? 0) then Err EExc
      else if (r <=? 0) && (delta =? 0) then Ok (Some r)
      else if (r <? 0) && (delta <? 0) then Ok (Some (- delta))
      else Ok (Some (r - delta))
  end.

(* ================================================================ WRITER *)
(* w_pos is both _byte_offset and the file position (the class keeps them equal:
   _write_byte advances both, flush writes and seeks back, seek sets both). *)
Record wst := mkW { w_file : list Z; w_pos : Z; w_nb : Z; w_cur : Z; w_rem : option Z }.

Definition w_init (f : list Z) (pos : Z) : wst := mkW f pos 7 0 None.
Definition w_set_rem (s : wst) (r : option Z) : wst := mkW (w_file s) (w_pos s) (w_nb s) (w_cur s) r.
Definition w_tell (s : wst) : Z * Z := (w_pos s, w_nb s).
Definition w_bitpos (s : wst) : Z := to_bit_offset (w_pos s) (w_nb s).

Definition w_write_byte (s : wst) : wst :=
  mkW (fwrite (w_file s) (w_pos s) (w_cur s)) (w_pos s + 1) 7 0 (w_rem s).

(* the unconditional part of write_bit *)
Definition put_bit (cur nb : Z) (v : bool) : Z :=
  let c := Z.land cur (Z.lnot (Z.shiftl 1 nb)) in
  if v then Z.lor c (Z.shiftl 1 nb) else c.
Definition w_put (v : bool) (s : wst) : wst :=
  let s1 := mkW (w_file s) (w_pos s) (w_nb s - 1) (put_bit (w_cur s) (w_nb s) v) (w_rem s) in
  if w_nb s1 <? 0 then w_write_byte s1 else s1.

Definition w_write_bit (v : bool) (s : wst) : wst * option err :=
  match w_rem s with
  | Some r =>
      let s1 := w_set_rem s (Some (r - 1)) in
      if r - 1 <=? -1 then (s1, if v then None else Some EValue)
      else (w_put v s1, None)
  | None => (w_put v s, None)
  end.

Fixpoint w_write_bits (l : list bool) (s : wst) : wst * option err :=
  match l with
  | [] => (s, None)
  | b :: t => match w_write_bit b s with
              | (s1, None) => w_write_bits t s1
              | r => r
              end
  end.

Definition w_write_nbits (bits value : Z) (s : wst) : wst * option err :=
  if (value <? 0) || (bit_length value >? bits) then (s, Some EOutOfRange)
  else w_write_bits (nbits_list (Z.to_nat bits) value) s.
Definition w_write_uint_lit (num_bytes value : Z) (s : wst) := w_write_nbits (num_bytes * 8) value s.
Definition w_write_bitarray (bits : Z) (value : list bool) (s : wst) : wst * option err :=
  if Z.of_nat (length value) >? bits then (s, Some EOutOfRange)
  else w_write_bits (bitarray_bits bits value) s.
Fixpoint w_write_each_byte (l : list Z) (s : wst) : wst * option err :=
  match l with
  | [] => (s, None)
  | b :: t => match w_write_nbits 8 b s with
              | (s1, None) => w_write_each_byte t s1
              | r => r
              end
  end.
Definition w_write_bytes (num_bytes : Z) (value : list Z) (s : wst) : wst * option err :=
  if Z.of_nat (length value) >? num_bytes then (s, Some EOutOfRange)
  else w_write_each_byte (bytes_padded num_bytes value) s.
Definition w_write_uint (value : Z) (s : wst) : wst * option err :=
  if value <? 0 then (s, Some EOutOfRange) else w_write_bits (uint_bits value) s.
Definition w_write_sint (value : Z) (s : wst) : wst * option err :=
  match w_write_uint (Z.abs value) s with
  | (s1, None) => if value =? 0 then (s1, None) else w_write_bit (value <? 0) s1
  | r => r
  end.

Definition w_flush (s : wst) : wst :=
  if w_nb s =? 7 then s
  else mkW (fwrite (w_file s) (w_pos s) (w_cur s)) (w_pos s) (w_nb s) (w_cur s) (w_rem s).

Definition w_seek (bytes bits : Z) (s : wst) : wst * option err :=
  if negb ((0 <=? bits) && (bits <=? 7)) then (s, Some EAssert) else
  match seek_adjust (w_rem s) (w_bitpos s) (to_bit_offset bytes bits) with
  | Err e => (s, Some e)
  | Ok rem' =>
      let s1 := w_flush (w_set_rem s rem') in
      if bytes <? 0 then (s1, Some EValue)
      else (mkW (w_file s1) bytes bits 0 rem', None)
  end.

Definition w_block_begin (len : Z) (s : wst) : wst * option err :=
  match w_rem s with
  | Some _ => (s, Some EExc)
  | None => (w_set_rem s (Some len), None)
  end.
Definition w_block_end (s : wst) : wst * res Z :=
  match w_rem s with
  | None => (s, Err EExc)
  | Some r => (w_set_rem s None, Ok (Z.max 0 r))
  end.

(* the bits that a write-only (never seeking) use has produced so far *)
Definition w_view (s : wst) : list bool :=
  bytes_bits (firstn (Z.to_nat (w_pos s)) (w_file s))
  ++ nbits_list (Z.to_nat (7 - w_nb s)) (Z.shiftr (w_cur s) (w_nb s + 1)).

(* ============================================================ generic loops *)
(* read_nbits / read_bitarray / read_uint / read_sint of both readers are the same
   loops over their respective read_bit; `comb` is `|` in BitstreamReader.read_nbits
   and `+` in the decoder's.  (Both readers only ever produce the ints 0 and 1 as
   bits, so `if bit:` / `== 0` / `== 1` tests coincide.) *)
Section Loops.
  Context {St : Type}.
  Variable rb : St -> St * res Z.

  Definition bind {A B} (m : St * res A) (k : St -> A -> St * res B) : St * res B :=
    match m with
    | (s, Ok a) => k s a
    | (s, Err e) => (s, Err e)
    end.

  Fixpoint g_nbits (comb : Z -> Z -> Z) (n : nat) (acc : Z) (s : St) : St * res Z :=
    match n with
    | O => (s, Ok acc)
    | S k => bind (rb s) (fun s1 b => g_nbits comb k (comb (Z.shiftl acc 1) b) s1)
    end.

  Fixpoint g_bitlist (n : nat) (s : St) : St * res (list Z) :=
    match n with
    | O => (s, Ok [])
    | S k => bind (rb s) (fun s1 b => bind (g_bitlist k s1) (fun s2 l => (s2, Ok (b :: l))))
    end.

  Fixpoint g_uint (fuel : nat) (value : Z) (s : St) : St * res Z :=
    match fuel with
    | O => (s, Err EFuel)
    | S k => bind (rb s) (fun s1 b =>
               if z2b b then (s1, Ok (value - 1))
               else bind (rb s1) (fun s2 b2 => g_uint k (Z.shiftl value 1 + b2) s2))
    end.

  Definition g_sint (fuel : nat) (s : St) : St * res Z :=
    bind (g_uint fuel 1 s) (fun s1 v =>
      if v =? 0 then (s1, Ok v)
      else bind (rb s1) (fun s2 b => (s2, Ok (if z2b b then - v else v)))).
End Loops.

(* ======================================================== BitstreamReader *)
Record rst := mkR { r_file : list Z; r_off : Z; r_nb : Z; r_cur : option Z; r_rem : option Z }.

Definition r_set_rem (s : rst) (r : option Z) : rst := mkR (r_file s) (r_off s) (r_nb s) (r_cur s) r.
(* _read_byte: r_off is _byte_offset; the file position equals it until the end of
   the file is hit, after which read(1) keeps returning b"" *)
Definition r_read_byte (s : rst) : rst :=
  mkR (r_file s) (r_off s + 1) 7 (nth_z (r_file s) (r_off s)) (r_rem s).
Definition r_init (f : list Z) (pos : Z) : rst := r_read_byte (mkR f pos 7 None None).
Definition r_tell (s : rst) : Z * Z := (r_off s - 1, r_nb s).
Definition r_bitpos (s : rst) : Z := to_bit_offset (r_off s - 1) (r_nb s).

Definition r_get (s : rst) : rst * res Z :=
  match r_cur s with
  | None => (s, Err EEof)
  | Some c =>
      let bit := Z.land (Z.shiftr c (r_nb s)) 1 in
      let s1 := mkR (r_file s) (r_off s) (r_nb s - 1) (r_cur s) (r_rem s) in
      (if r_nb s1 <? 0 then r_read_byte s1 else s1, Ok bit)
  end.
Definition r_read_bit (s : rst) : rst * res Z :=
  match r_rem s with
  | Some r =>
      let s1 := r_set_rem s (Some (r - 1)) in
      if r - 1 <=? -1 then (s1, Ok 1) else r_get s1
  | None => r_get s
  end.

(* the bits still to come *)
Definition r_view (s : rst) : list bool :=
  match r_cur s with
  | None => []
  | Some c => nbits_list (Z.to_nat (r_nb s + 1)) c ++ bytes_bits (skipn (Z.to_nat (r_off s)) (r_file s))
  end.

Definition r_read_nbits (bits : Z) (s : rst) : rst * res Z := g_nbits r_read_bit Z.lor (Z.to_nat bits) 0 s.
Definition r_read_uint_lit (num_bytes : Z) (s : rst) := r_read_nbits (num_bytes * 8) s.
Definition r_read_bitarray (bits : Z) (s : rst) : rst * res (list Z) := g_bitlist r_read_bit (Z.to_nat bits) s.
Definition r_read_bytes (num_bytes : Z) (s : rst) : rst * res (list Z) :=
  bind (r_read_bitarray (num_bytes * 8) s) (fun s1 l => (s1, Ok (bits_to_bytes l))).
Definition r_fuel (s : rst) : nat := S (length (r_view s)).
Definition r_read_uint (s : rst) : rst * res Z := g_uint r_read_bit (r_fuel s) 1 s.
Definition r_read_sint (s : rst) : rst * res Z := g_sint r_read_bit (r_fuel s) s.

Definition r_seek (bytes bits : Z) (s : rst) : rst * option err :=
  if negb ((0 <=? bits) && (bits <=? 7)) then (s, Some EAssert) else
  match seek_adjust (r_rem s) (r_bitpos s) (to_bit_offset bytes bits) with
  | Err e => (s, Some e)
  | Ok rem' =>
      if bytes <? 0 then (r_set_rem s rem', Some EValue)
      else (mkR (r_file s) (bytes + 1) bits (nth_z (r_file s) bytes) rem', None)
  end.
Definition r_block_begin (len : Z) (s : rst) : rst * option err :=
  match r_rem s with
  | Some _ => (s, Some EExc)
  | None => (r_set_rem s (Some len), None)
  end.
Definition r_block_end (s : rst) : rst * res Z :=
  match r_rem s with
  | None => (s, Err EExc)
  | Some r => (r_set_rem s None, Ok (Z.max 0 r))
  end.

(* ========================================================= decoder/io.py *)
(* d_pos is state["_file"].tell(); d_left is state["bits_left"] (0 until first set);
   d_rec is state["_recorded_bytes"] (None = key absent). *)
Record dst := mkD { d_file : list Z; d_pos : Z; d_nb : Z; d_cur : option Z; d_left : Z;
                    d_rec : option (list Z) }.

Definition d_set_left (s : dst) (l : Z) : dst := mkD (d_file s) (d_pos s) (d_nb s) (d_cur s) l (d_rec s).
Definition d_read_byte (s : dst) : dst :=
  let rec' := match d_rec s, d_cur s with
              | Some l, Some c => Some (l ++ [c])
              | r, _ => r   (* appending None would be a TypeError: unreachable, see byte_align *)
              end in
  match nth_z (d_file s) (d_pos s) with
  | Some b => mkD (d_file s) (d_pos s + 1) 7 (Some b) (d_left s) rec'
  | None => mkD (d_file s) (d_pos s) 7 None (d_left s) rec'
  end.
Definition d_init (f : list Z) (pos : Z) : dst := d_read_byte (mkD f pos 7 None 0 None).
Definition d_tell (s : dst) : Z * Z :=
  (d_pos s - (match d_cur s with Some _ => 1 | None => 0 end), d_nb s).
Definition d_bitpos (s : dst) : Z := to_bit_offset (fst (d_tell s)) (snd (d_tell s)).

Definition d_read_bit (s : dst) : dst * res Z :=
  match d_cur s with
  | None => (s, Err EUnexpectedEOS)
  | Some c =>
      let bit := Z.land (Z.shiftr c (d_nb s)) 1 in
      let s1 := mkD (d_file s) (d_pos s) (d_nb s - 1) (d_cur s) (d_left s) (d_rec s) in
      (if d_nb s1 <? 0 then d_read_byte s1 else s1, Ok bit)
  end.
Definition d_byte_align (s : dst) : dst := if d_nb s =? 7 then s else d_read_byte s.
Definition d_read_bitb (s : dst) : dst * res Z :=
  if d_left s =? 0 then (s, Ok 1) else d_read_bit (d_set_left s (d_left s - 1)).
Fixpoint d_flush_n (n : nat) (s : dst) : dst * option err :=
  match n with
  | O => (s, None)
  | S k => match d_read_bit s with
           | (s1, Ok _) => d_flush_n k (d_set_left s1 (d_left s1 - 1))
           | (s1, Err e) => (s1, Some e)
           end
  end.
Definition d_flush_inputb (s : dst) : dst * option err := d_flush_n (Z.to_nat (d_left s)) s.

Definition d_view (s : dst) : list bool :=
  match d_cur s with
  | None => []
  | Some c => nbits_list (Z.to_nat (d_nb s + 1)) c ++ bytes_bits (skipn (Z.to_nat (d_pos s)) (d_file s))
  end.
Definition d_fuel (s : dst) : nat := S (length (d_view s)).

Definition d_read_nbits (n : Z) (s : dst) : dst * res Z := g_nbits d_read_bit Z.add (Z.to_nat n) 0 s.
Definition d_read_uint_lit (n : Z) (s : dst) := d_read_nbits (8 * n) s.
Definition d_read_uint (s : dst) : dst * res Z := g_uint d_read_bit (d_fuel s) 1 s.
Definition d_read_sint (s : dst) : dst * res Z := g_sint d_read_bit (d_fuel s) s.
Definition d_read_uintb (s : dst) : dst * res Z := g_uint d_read_bitb (d_fuel s) 1 s.
Definition d_read_sintb (s : dst) : dst * res Z := g_sint d_read_bitb (d_fuel s) s.

Definition d_record_start (s : dst) : dst * option err :=
  if negb (d_nb s =? 7) then (s, Some EAssert) else
  match d_rec s with
  | Some _ => (s, Some EAssert)
  | None => (mkD (d_file s) (d_pos s) (d_nb s) (d_cur s) (d_left s) (Some []), None)
  end.
Definition d_record_finish (s : dst) : dst * res (list Z) :=
  match d_rec s with
  | None => (s, Err EExc)
  | Some l =>
      let s1 := mkD (d_file s) (d_pos s) (d_nb s) (d_cur s) (d_left s) None in
      if d_nb s =? 7 then (s1, Ok l)
      else match d_cur s with
           | Some c => (s1, Ok (l ++ [Z.land c (Z.lnot (Z.shiftl 1 (d_nb s + 1) - 1))]))
           | None => (s1, Err EExc)
           end
  end.

(* ================================================= programs of primitive reads *)
(* The vocabulary both readers share.  A bounded block is opened with a length,
   read with the bounded primitives, and closed the way each client closes it:
   the validator calls flush_inputb; the deserialiser (SerDes.bounded_block_end)
   calls bounded_block_end() and reads the returned number of unused bits.
   PAlign is byte_align vs SerDes.byte_align (tell, then read the rest of the byte). *)
Inductive bop := BBit | BUint | BSint.
Inductive rop := PBit | PNBits (n : Z) | PUintLit (n : Z) | PUint | PSint | PAlign
               | PBlock (len : Z) (body : list bop).

(* observation: values with the bit offset of tell() after each primitive, then
   how the run ended (None, or the error) and the final bit offset *)
Definition obs := (list (Z * Z) * (option err * Z))%type.

Definition eof_class (e : err) : err := match e with EUnexpectedEOS => EEof | e => e end.

Section Run.
  Context {St : Type}.
  Variable pos : St -> Z.
  Definition step (m : St * res Z) (k : St -> list (Z * Z) * (option err * Z)) : obs :=
    match m with
    | (s, Ok v) => let '(l, fin) := k s in ((v, pos s) :: l, fin)
    | (s, Err e) => ([], (Some (eof_class e), pos s))
    end.
End Run.

Definition r_bop (o : bop) (s : rst) : rst * res Z :=
  match o with BBit => r_read_bit s | BUint => r_read_uint s | BSint => r_read_sint s end.
Definition d_bop (o : bop) (s : dst) : dst * res Z :=
  match o with BBit => d_read_bitb s | BUint => d_read_uintb s | BSint => d_read_sintb s end.

Definition zero_val {S A} (m : S * res A) : S * res Z :=
  match m with (s, Ok _) => (s, Ok 0) | (s, Err e) => (s, Err e) end.
Definition opt_res {S} (m : S * option err) : S * res Z :=
  match m with (s, None) => (s, Ok 0) | (s, Some e) => (s, Err e) end.

Fixpoint r_body (body : list bop) (s : rst) (k : rst -> obs) : obs :=
  match body with
  | [] => k s
  | o :: t => step r_bitpos (r_bop o s) (fun s1 => r_body t s1 k)
  end.
Fixpoint d_body (body : list bop) (s : dst) (k : dst -> obs) : obs :=
  match body with
  | [] => k s
  | o :: t => step d_bitpos (d_bop o s) (fun s1 => d_body t s1 k)
  end.

Definition r_align (s : rst) : rst * res Z :=
  zero_val (r_read_bitarray (if r_nb s =? 7 then 0 else r_nb s + 1) s).
Definition r_close (s : rst) : rst * res Z :=
  match r_block_end s with
  | (s1, Ok n) => zero_val (r_read_bitarray n s1)
  | (s1, Err e) => (s1, Err e)
  end.

Fixpoint r_run (p : list rop) (s : rst) : obs :=
  match p with
  | [] => ([], (None, r_bitpos s))
  | o :: t =>
      let k := r_run t in
      match o with
      | PBit => step r_bitpos (r_read_bit s) k
      | PNBits n => step r_bitpos (r_read_nbits n s) k
      | PUintLit n => step r_bitpos (r_read_uint_lit n s) k
      | PUint => step r_bitpos (r_read_uint s) k
      | PSint => step r_bitpos (r_read_sint s) k
      | PAlign => step r_bitpos (r_align s) k
      | PBlock len body =>
          step r_bitpos (opt_res (r_block_begin len s))
               (fun s1 => r_body body s1 (fun s2 => step r_bitpos (r_close s2) k))
      end
  end.
Fixpoint d_run (p : list rop) (s : dst) : obs :=
  match p with
  | [] => ([], (None, d_bitpos s))
  | o :: t =>
      let k := d_run t in
      match o with
      | PBit => step d_bitpos (d_read_bit s) k
      | PNBits n => step d_bitpos (d_read_nbits n s) k
      | PUintLit n => step d_bitpos (d_read_uint_lit n s) k
      | PUint => step d_bitpos (d_read_uint s) k
      | PSint => step d_bitpos (d_read_sint s) k
      | PAlign => step d_bitpos (d_byte_align s, Ok 0) k
      | PBlock len body =>
          step d_bitpos (d_set_left s len, Ok 0)
               (fun s1 => d_body body s1 (fun s2 => step d_bitpos (opt_res (d_flush_inputb s2)) k))
      end
  end.
