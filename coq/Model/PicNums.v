(* The validator's picture-number rule (decoder/assertions.py:
   assert_picture_number_incremented_as_expected) as a checker over the list of picture numbers
   of one sequence, and the numbering the encoder-side tools produce. *)
From Coq Require Import ZArith List Bool.
Import ListNotations.
Open Scope Z_scope.

Definition wrap32 (n : Z) : Z := Z.land n 4294967295.

(* state: last number (None at sequence start), number of pictures so far *)
Fixpoint picnums_from (fields : bool) (last : option Z) (count : Z) (nums : list Z) : bool :=
  match nums with
  | [] => true
  | n :: rest =>
      (match last with None => true | Some l => n =? wrap32 (l + 1) end)
      && (if fields then (if (count mod 2 =? 0) then (n mod 2 =? 0) else true) else true)
      && picnums_from fields (Some n) (count + 1) rest
  end.
Definition picnums_ok (fields : bool) (nums : list Z) : bool := picnums_from fields None 0 nums.

(* n consecutive numbers from start, wrapping at 2^32 *)
Fixpoint consecutive (start : Z) (n : nat) : list Z :=
  match n with
  | O => []
  | S k => start :: consecutive (wrap32 (start + 1)) k
  end.
