(* Logic core of the command-line tools.
   vc2-bitstream-validator (scripts/vc2_bitstream_validator.py, BitstreamValidator.run /
   _output_picture): outcome of the decoder -> exit status; the output-picture callback keeps a
   counter `_next_picture_index`, writes file `pattern % index`, increments.
   vc2-bitstream-viewer (scripts/vc2_bitstream_viewer.py, BitstreamViewer.run): outcome of the
   deserialiser -> exit status.  *)
From Coq Require Import ZArith List Bool.
Import ListNotations.
Open Scope Z_scope.

(* ---- validator ---------------------------------------------------------- *)
Inductive voutcome := VAccept | VConformanceError | VOtherException | VOpenFailed.

Definition validator_exit (o : voutcome) : Z :=
  match o with
  | VAccept => 0
  | VOpenFailed => 1
  | VConformanceError => 2
  | VOtherException => 3
  end.

Section Files.
Context {pic name : Type}.
Variable fmt : Z -> name.         (* the --output pattern applied to an index *)

(* state of the callback: next index, files written so far (latest first) *)
Definition cb_state := (Z * list (name * pic))%type.
Definition cb_init : cb_state := (0, []).
Definition output_picture (s : cb_state) (p : pic) : cb_state :=
  (fst s + 1, (fmt (fst s), p) :: snd s).
Definition files_written (pics : list pic) : list (name * pic) :=
  rev (snd (fold_left output_picture pics cb_init)).

(* specification: picture i (in decode order) goes to file fmt(i) *)
Fixpoint numbered_from (i : Z) (pics : list pic) : list (name * pic) :=
  match pics with
  | [] => []
  | p :: r => (fmt i, p) :: numbered_from (i + 1) r
  end.
End Files.

(* ---- viewer -------------------------------------------------------------------- *)
(* what bitstream.parse_stream inside BitstreamViewer.run can end with, as run() classifies it *)
Inductive viewer_outcome :=
  | WDone                (* parsed to the end of the file *)
  | WOpenFailed          (* open()/getsize() failed *)
  | WTerminateSuccess    (* the requested --to-offset was reached *)
  | WKeyboardInterrupt
  | WTerminateError      (* invalid parse_info prefix (and prefix checking enabled) *)
  | WEndOfFile           (* EOFError from the reader *)
  | WPseudocodeException (* any other exception whose innermost vc2.py / viewer frame is in bitstream/vc2.py *)
  | WViewerException.    (* any other exception whose innermost such frame is in the viewer script itself *)

Definition viewer_exit (o : viewer_outcome) : Z :=
  match o with
  | WDone => 0
  | WOpenFailed => 1
  | WTerminateSuccess => 0
  | WKeyboardInterrupt => 1
  | WTerminateError => 2
  | WEndOfFile => 3
  | WPseudocodeException => 4
  | WViewerException => 255
  end.

(* is_internal_error: walk the traceback frames outermost -> innermost; the LAST frame that lies in
   either the viewer script or bitstream/vc2.py decides *)
Inductive frame := FViewer | FVc2 | FOther.
Definition is_internal_error (tb : list frame) : bool :=
  fold_left (fun acc f => match f with FViewer => true | FVc2 => false | FOther => acc end) tb false.
