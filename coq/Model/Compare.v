(* Model of vc2_conformance/scripts/vc2_picture_compare.py: the decisions of
   read_pictures_with_only_one_metadata_file_required, compare_pictures,
   measure_differences/psnr (as far as they decide "identical" and the printed counts)
   and the exit code of main() in file and directory mode.

   Mechanism kept: metadata precedence (a missing JSON file takes the other picture's
   metadata, including its picture number); exit 100/101/102 via sys.exit; the order
   video parameters (1) -> picture coding mode (2) -> picture number (3) -> samples (0/4);
   "identical" is decided by psnr(...) is None, i.e. mean(delta^2) == 0, for all three
   components, while the printed counts come from np.count_nonzero(delta): two different
   computations whose agreement is a theorem (Proofs/CompareProofs.v).
   mean(delta^2) == 0 is modelled as sum(delta^2) = 0: numpy sums the object array exactly
   (Python ints) and the true division of a non-zero int by the sample count is a non-zero
   float (trusted); for a component with NO samples numpy's mean is nan, nan == 0 is false and
   the component counts as different (outside the property's domain, kept for faithfulness).
   Floats (the PSNR value, the percentage) are not modelled. *)
From Coq Require Import ZArith List Bool.
From VC2 Require Import Base.PyZ Model.FileFormat.
Import ListNotations.
Open Scope Z_scope.

(* ---- equality of metadata (dict / IntEnum / int equality in the code) ---------------- *)
Fixpoint zlist_eq (a b : list Z) : bool :=
  match a, b with
  | [], [] => true
  | x :: a', y :: b' => (x =? y) && zlist_eq a' b'
  | _, _ => false
  end.

Definition format_eqb (f g : format) : bool :=
  (frame_width f =? frame_width g) && (frame_height f =? frame_height g) &&
  (cdf_index f =? cdf_index g) && (luma_excursion f =? luma_excursion g) &&
  (color_diff_excursion f =? color_diff_excursion g) && zlist_eq (other_params f) (other_params g).

(* ---- reading the two pictures -------------------------------------------------------- *)
Inductive outcome :=
| Exit (code : Z)                          (* sys.exit(code) before any comparison *)
| Compared (rc : Z) (counts : list Z).     (* compare_pictures returned rc; counts = differing
                                              samples of Y, C1, C2 (only for rc 0 / 4) *)

Definition rc_of (o : outcome) : Z :=
  match o with Exit c => c | Compared rc _ => rc end.

Definition resolve_metadata (ma mb : option metadata) : option (metadata * metadata) :=
  match ma, mb with
  | None, None => None
  | None, Some b => Some (b, b)
  | Some a, None => Some (a, a)
  | Some a, Some b => Some (a, b)
  end.

(* read_picture followed by `if len(f.read(1)) != 0: raise ValueError()`;
   None = ValueError (too short or too long) *)
Definition read_whole (m : metadata) (bytes : list Z) : option (list (list Z)) :=
  match read_picture (compute_dimensions_and_depths (m_format m) (m_pcm m)) bytes with
  | Some (pic, []) => Some pic
  | _ => None
  end.

(* ---- measuring differences ------------------------------------------------------------ *)
(* np.array(b) - np.array(a), element-wise (the shapes agree because the metadata agree) *)
Fixpoint deltas (a b : list Z) : list Z :=
  match a, b with
  | x :: a', y :: b' => (y - x) :: deltas a' b'
  | _, _ => []
  end.

Definition count_nonzero (ds : list Z) : Z :=
  Z.of_nat (length (filter (fun d => negb (d =? 0)) ds)).

Definition sum_squares (ds : list Z) : Z := fold_left (fun s d => s + d * d) ds 0.

(* psnr(deltas, max) is None *)
Definition psnr_is_none (ds : list Z) : bool :=
  match ds with
  | [] => false                      (* np.mean of an empty array: nan *)
  | _ => sum_squares ds =? 0
  end.

Fixpoint all_deltas (pa pb : list (list Z)) : list (list Z) :=
  match pa, pb with
  | a :: pa', b :: pb' => deltas a b :: all_deltas pa' pb'
  | _, _ => []
  end.

(* (identical, per-component counts) *)
Definition measure_differences (ds : list (list Z)) : bool * list Z :=
  (forallb psnr_is_none ds, map count_nonzero ds).

(* ---- compare_pictures ------------------------------------------------------------------ *)
Definition compare_pictures (ma mb : option metadata) (fa fb : option (list Z)) : outcome :=
  match resolve_metadata ma mb with
  | None => Exit 100
  | Some (a, b) =>
      match fa with
      | None => Exit 101
      | Some bytes_a =>
          match read_whole a bytes_a with
          | None => Exit 102
          | Some pa =>
              match fb with
              | None => Exit 101
              | Some bytes_b =>
                  match read_whole b bytes_b with
                  | None => Exit 102
                  | Some pb =>
                      if negb (format_eqb (m_format a) (m_format b)) then Compared 1 []
                      else if negb (m_pcm a =? m_pcm b) then Compared 2 []
                      else if negb (m_picnum a =? m_picnum b) then Compared 3 []
                      else let '(identical, counts) := measure_differences (all_deltas pa pb) in
                           Compared (if identical then 0 else 4) counts
                  end
              end
          end
      end
  end.

(* main(), two files: the exit status is compare_pictures' return code (or the sys.exit code) *)
Definition main_files (ma mb : option metadata) (fa fb : option (list Z)) : Z :=
  rc_of (compare_pictures ma mb fa fb).

(* main(), two directories: given the return codes of the pairs in the order compared,
   (final exit code, number identical, number different) *)
Definition dir_step (st : Z * Z * Z) (rc : Z) : Z * Z * Z :=
  let '(fin, same, diff) := st in
  if negb (rc =? 0) then (rc, same, diff + 1) else (fin, same + 1, diff).

Definition main_dirs (rcs : list Z) : Z * Z * Z := fold_left dir_step rcs (0, 0, 0).
