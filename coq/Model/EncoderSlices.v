(* Model of the slice-level part of the picture encoder
   (vc2_conformance/encoder/pictures.py) and of the decoder's inverse steps
   (vc2_conformance/decoder/transform_data_syntax.py), for properties C14 and C04.

   Everything integer-valued that the translator covers is USED from coq/Gen (tie T):
     Gen.Quant.forward_quant / inverse_quant, Gen.ExpGolombLen.signed_exp_golomb_length,
     Gen.SliceSizes.slice_bytes / slice_left / ..., Gen.EncBudget.get_safe_lossy_hq_slice_size_scaler,
     Gen.VC2Math.mean / intlog2.
   The rest (loops, list building, in-place array updates) is written by hand here and
   compared with the real functions by tools/harness/C14.py and C04.py (tie C).

   No proofs in this file. *)
From Coq Require Import ZArith List Bool.
From VC2 Require Import Base.PyZ Gen.StateRec Gen.VC2Math Gen.Quant Gen.ExpGolombLen
                        Gen.SliceSizes Gen.EncBudget.
Import ListNotations.
Open Scope Z_scope.

(* ------------------------------------------------------------------------ *)
(* results: Python returns normally / raises Insufficient*PictureBytesError;  *)
(* OutOfFuel exists only in the model (excluded by the sufficiency theorem)   *)
(* ------------------------------------------------------------------------ *)
Inductive res (A : Type) : Type :=
| Ok (a : A)
| Insufficient
| OutOfFuel.
Arguments Ok {A} a.
Arguments Insufficient {A}.
Arguments OutOfFuel {A}.

(* first failure in iteration order wins (the Python loop raises at that slice) *)
Fixpoint res_all {A} (l : list (res A)) : res (list A) :=
  match l with
  | [] => Ok []
  | Ok a :: r => match res_all r with Ok t => Ok (a :: t) | Insufficient => Insufficient | OutOfFuel => OutOfFuel end
  | Insufficient :: _ => Insufficient
  | OutOfFuel :: _ => OutOfFuel
  end.

(* enumerate(l) *)
Fixpoint enum_from {A} (i : Z) (l : list A) : list (Z * A) :=
  match l with
  | [] => []
  | x :: r => (i, x) :: enum_from (i + 1) r
  end.
Definition enumerate {A} (l : list A) : list (Z * A) := enum_from 0 l.

(* arrays.width / arrays.height of a nested list *)
Definition arr_height {A} (a : list (list A)) : Z := Z.of_nat (length a).
Definition arr_width {A} (a : list (list A)) : Z :=
  match a with [] => 0 | r :: _ => Z.of_nat (length r) end.

(* ------------------------------------------------------------------------ *)
(* calculate_coeffs_bits: walk the REVERSED list, skipping zeros until the    *)
(* first non-zero value, then add signed_exp_golomb_length of everything      *)
(* ------------------------------------------------------------------------ *)
Definition ccb_step (st : Z * bool) (coeff : Z) : Z * bool :=
  let '(num_bits, skip_zeros) := st in
  if skip_zeros && (coeff =? 0) then (num_bits, skip_zeros)
  else (num_bits + signed_exp_golomb_length coeff, false).

Definition calculate_coeffs_bits (coeffs : list Z) : Z :=
  fst (fold_left ccb_step (rev coeffs) (0, true)).

Definition calculate_hq_length_field (coeffs : list Z) (slice_size_scaler : Z) : Z :=
  let multiple := 8 * slice_size_scaler in
  py_div (calculate_coeffs_bits coeffs + multiple - 1) multiple.

(* quantize_coeffs: zip(coeff_values, quant_matrix_values) *)
Definition quantize_coeffs (qindex : Z) (coeff_values quant_matrix_values : list Z) : list Z :=
  map (fun p => forward_quant (fst p) (py_max 0 (qindex - snd p)))
      (combine coeff_values quant_matrix_values).

(* ComponentCoeffs(coeff_values, quant_matrix_values) ; SliceCoeffs(Y, C1, C2) *)
Definition ccoeffs : Type := (list Z * list Z)%type.
Definition scoeffs : Type := (ccoeffs * ccoeffs * ccoeffs)%type.
Definition sc_Y (s : scoeffs) : ccoeffs := fst (fst s).
Definition sc_C1 (s : scoeffs) : ccoeffs := snd (fst s).
Definition sc_C2 (s : scoeffs) : ccoeffs := snd s.

(* one block's length rounded up to a whole multiple of align_bits *)
Definition block_len (align_bits : Z) (quantized_coeffs : list Z) : Z :=
  py_div (calculate_coeffs_bits quantized_coeffs + align_bits - 1) align_bits * align_bits.

Definition quantize_sets (qindex : Z) (coeff_sets : list ccoeffs) : list (list Z) :=
  map (fun cc => quantize_coeffs qindex (fst cc) (snd cc)) coeff_sets.

Definition total_length (align_bits : Z) (qindex : Z) (coeff_sets : list ccoeffs) : Z :=
  py_sum (map (block_len align_bits) (quantize_sets qindex coeff_sets)).

(* "qindex fits": the test of the search loop *)
Definition fits (target_size : Z) (coeff_sets : list ccoeffs) (align_bits qindex : Z) : bool :=
  total_length align_bits qindex coeff_sets <=? target_size.

(* quantize_to_fit: `for qindex in count(minimum_qindex)` -- a LINEAR upward search with
   no upper limit.  Modelled on fuel; None = fuel exhausted (never happens with fit_fuel,
   see EncoderSlicesProofs.quantize_to_fit_total). *)
Fixpoint quantize_to_fit_fuel (fuel : nat) (target_size : Z) (coeff_sets : list ccoeffs)
         (align_bits qindex : Z) : option (Z * list (list Z)) :=
  match fuel with
  | O => None
  | S f =>
      if fits target_size coeff_sets align_bits qindex
      then Some (qindex, quantize_sets qindex coeff_sets)
      else quantize_to_fit_fuel f target_size coeff_sets align_bits (qindex + 1)
  end.

(* an index at which every coefficient of the set is quantised to zero *)
Definition zero_qindex_cc (cc : ccoeffs) : Z :=
  fold_right Z.max 0 (map (fun p => snd p + 4 * bit_length (fst p)) (combine (fst cc) (snd cc))).
Definition zero_qindex (coeff_sets : list ccoeffs) : Z :=
  fold_right Z.max 0 (map zero_qindex_cc coeff_sets).
Definition fit_fuel (coeff_sets : list ccoeffs) (minimum_qindex : Z) : nat :=
  S (Z.to_nat (zero_qindex coeff_sets - minimum_qindex)).

Definition quantize_to_fit (target_size : Z) (coeff_sets : list ccoeffs)
           (align_bits minimum_qindex : Z) : option (Z * list (list Z)) :=
  quantize_to_fit_fuel (fit_fuel coeff_sets minimum_qindex) target_size coeff_sets align_bits minimum_qindex.

(* ------------------------------------------------------------------------ *)
(* HQ slices                                                                  *)
(* ------------------------------------------------------------------------ *)
Record hq_slice := mk_hq_slice {
  hq_qindex : Z;
  hq_y_length : Z;
  hq_c1_length : Z;
  hq_c2_length : Z;
  hq_y : list Z;
  hq_c1 : list Z;
  hq_c2 : list Z
}.

Definition make_hq_slice (y c1 c2 : list Z) (total_length : option Z) (qindex slice_size_scaler : Z) : hq_slice :=
  let y_length := calculate_hq_length_field y slice_size_scaler in
  let c1_length := calculate_hq_length_field c1 slice_size_scaler in
  let c2_length := match total_length with
                   | None => calculate_hq_length_field c2 slice_size_scaler
                   | Some t => t - y_length - c1_length
                   end in
  mk_hq_slice qindex y_length c1_length c2_length y c1 c2.

Definition hq_max_length (s : hq_slice) : Z :=
  py_max (py_max (hq_y_length s) (hq_c1_length s)) (hq_c2_length s).

(* max() of a list; Python raises on the empty list: the model returns 0 there (never
   reached: a picture has at least one slice) *)
Definition list_max (l : list Z) : Z :=
  match l with [] => 0 | x :: r => fold_left Z.max r x end.

Definition rescale_hq_slice (slice_size_scaler : Z) (s : hq_slice) : hq_slice :=
  mk_hq_slice (hq_qindex s)
    (py_div (hq_y_length s + (slice_size_scaler - 1)) slice_size_scaler)
    (py_div (hq_c1_length s + (slice_size_scaler - 1)) slice_size_scaler)
    (py_div (hq_c2_length s + (slice_size_scaler - 1)) slice_size_scaler)
    (hq_y s) (hq_c1 s) (hq_c2 s).

(* make_transform_data_hq_lossless *)
Definition make_transform_data_hq_lossless (transform_coeffs : list (list scoeffs))
           (minimum_slice_size_scaler : Z) : Z * list hq_slice :=
  let slices := map (fun sc => make_hq_slice (fst (sc_Y sc)) (fst (sc_C1 sc)) (fst (sc_C2 sc)) None 0 1)
                    (concat transform_coeffs) in
  let max_length := list_max (map hq_max_length slices) in
  let slice_size_scaler := py_max (py_max 1 minimum_slice_size_scaler) (py_div (max_length + 254) 255) in
  (slice_size_scaler, map (rescale_hq_slice slice_size_scaler) slices).

(* the State handed to slice_bytes by the two lossy packers *)
Definition budget_state (slices_x slices_y num den : Z) : pystate :=
  set_st_slice_bytes_denominator
    (set_st_slice_bytes_numerator
       (set_st_slices_y (set_st_slices_x empty_pystate slices_x) slices_y) num) den.

Definition hq_lossy_slice (st : pystate) (slice_size_scaler minimum_qindex : Z) (sx sy : Z) (sc : scoeffs)
  : res hq_slice :=
  let total_length := slice_bytes st sx sy in
  let target_size := 8 * slice_size_scaler * total_length in
  match quantize_to_fit target_size [sc_Y sc; sc_C1 sc; sc_C2 sc] (8 * slice_size_scaler) minimum_qindex with
  | Some (qindex, [y; c1; c2]) =>
      (* REPAIRED behaviour (fixes/C14-qindex-field-overflow.diff): the qindex field is 8 bits *)
      if qindex >? 255 then Insufficient
      else Ok (make_hq_slice y c1 c2 (Some total_length) qindex slice_size_scaler)
  | _ => OutOfFuel
  end.

Definition hq_lossy_scaler (picture_bytes num_slices minimum_slice_size_scaler : Z) : Z :=
  py_max (get_safe_lossy_hq_slice_size_scaler picture_bytes num_slices) minimum_slice_size_scaler.

(* make_transform_data_hq_lossy *)
Definition make_transform_data_hq_lossy (picture_bytes : Z) (transform_coeffs : list (list scoeffs))
           (minimum_qindex minimum_slice_size_scaler : Z) : res (Z * list hq_slice) :=
  let slices_x := arr_width transform_coeffs in
  let slices_y := arr_height transform_coeffs in
  let num_slices := slices_x * slices_y in
  let slice_size_scaler := hq_lossy_scaler picture_bytes num_slices minimum_slice_size_scaler in
  let total_coeff_bytes := picture_bytes - num_slices * 4 in
  if total_coeff_bytes <? 0 then Insufficient else
  let st := budget_state slices_x slices_y total_coeff_bytes (num_slices * slice_size_scaler) in
  match res_all (flat_map (fun syrow =>
                   map (fun sxsc => hq_lossy_slice st slice_size_scaler minimum_qindex (fst sxsc) (fst syrow) (snd sxsc))
                       (enumerate (snd syrow)))
                 (enumerate transform_coeffs)) with
  | Ok slices => Ok (slice_size_scaler, slices)
  | Insufficient => Insufficient
  | OutOfFuel => OutOfFuel
  end.

(* bytes an HQ slice takes in the stream (13.5.4, slice_prefix_bytes = 0): qindex byte,
   three length bytes, then slice_size_scaler * length bytes per component *)
Definition hq_slice_stream_bytes (slice_size_scaler : Z) (s : hq_slice) : Z :=
  4 + slice_size_scaler * (hq_y_length s + hq_c1_length s + hq_c2_length s).

(* ------------------------------------------------------------------------ *)
(* LD slices                                                                  *)
(* ------------------------------------------------------------------------ *)
Record ld_slice := mk_ld_slice {
  ld_qindex : Z;
  ld_y_length : Z;
  ld_y : list Z;
  ld_c : list Z
}.

Definition make_ld_slice (y c : list Z) (qindex : Z) : ld_slice :=
  mk_ld_slice qindex (calculate_coeffs_bits y) y c.

(* interleave(a, b): zip truncates to the shorter list *)
Definition interleave (a b : list Z) : list Z :=
  flat_map (fun p => [fst p; snd p]) (combine a b).

Definition ld_target_size (st : pystate) (sx sy : Z) : Z :=
  let target_size := 8 * slice_bytes st sx sy in
  let target_size := target_size - 7 in
  target_size - intlog2 target_size.

Definition ld_lossy_slice (st : pystate) (minimum_qindex : Z) (sx sy : Z) (sc : scoeffs) : res ld_slice :=
  let target_size := ld_target_size st sx sy in
  if target_size <? 0 then Insufficient else
  let y_coeffs := sc_Y sc in
  let c_coeffs := (interleave (fst (sc_C1 sc)) (fst (sc_C2 sc)), interleave (snd (sc_C1 sc)) (snd (sc_C2 sc))) in
  match quantize_to_fit target_size [y_coeffs; c_coeffs] 1 minimum_qindex with
  | Some (qindex, [y; c]) =>
      (* REPAIRED behaviour (fixes/C14-qindex-field-overflow.diff): the qindex field is 7 bits *)
      if qindex >? 127 then Insufficient else Ok (make_ld_slice y c qindex)
  | _ => OutOfFuel
  end.

(* make_transform_data_ld_lossy *)
Definition make_transform_data_ld_lossy (picture_bytes : Z) (transform_coeffs : list (list scoeffs))
           (minimum_qindex : Z) : res (list ld_slice) :=
  let slices_x := arr_width transform_coeffs in
  let slices_y := arr_height transform_coeffs in
  let st := budget_state slices_x slices_y picture_bytes (slices_x * slices_y) in
  res_all (flat_map (fun syrow =>
             map (fun sxsc => ld_lossy_slice st minimum_qindex (fst sxsc) (fst syrow) (snd sxsc))
                 (enumerate (snd syrow)))
           (enumerate transform_coeffs)).

(* what the (de)serialiser and the decoder compute for an LD slice of slice_bytes bytes
   (13.5.3.1): width of the slice_y_length field, and the bits left for the two blocks *)
Definition ld_length_bits (slice_bytes_ : Z) : Z := intlog2 (8 * slice_bytes_ - 7).
Definition ld_payload_bits (slice_bytes_ : Z) : Z := 8 * slice_bytes_ - 7 - ld_length_bits slice_bytes_.

(* the slice's contents can be written into a slice of that many bytes without loss:
   the fields fit their widths, the luma block is exactly slice_y_length bits and the
   colour-difference coefficients fit in what remains (the serialiser pads the remainder,
   so the slice then occupies exactly 8*slice_bytes bits) *)
Definition ld_slice_fits (slice_bytes_ : Z) (s : ld_slice) : bool :=
  (0 <=? ld_y_length s) && (ld_y_length s <? 2 ^ ld_length_bits slice_bytes_)
  && (ld_y_length s =? calculate_coeffs_bits (ld_y s))
  && (ld_y_length s + calculate_coeffs_bits (ld_c s) <=? ld_payload_bits slice_bytes_).

(* ------------------------------------------------------------------------ *)
(* DC prediction (13.4): decoder dc_prediction and the encoder's inverse.     *)
(* Both update the band IN PLACE, the decoder in raster order, the encoder in *)
(* reverse raster order.                                                      *)
(* ------------------------------------------------------------------------ *)
Definition band : Type := list (list Z).

Definition bget (b : band) (y x : nat) : Z := nth x (nth y b []) 0.

Fixpoint list_set {A} (l : list A) (i : nat) (v : A) : list A :=
  match l, i with
  | [], _ => []
  | _ :: r, O => v :: r
  | a :: r, S j => a :: list_set r j v
  end.

Definition bset (b : band) (y x : nat) (v : Z) : band :=
  list_set b y (list_set (nth y b []) x v).

Definition dc_pred (b : band) (y x : nat) : Z :=
  match x, y with
  | S x1, S y1 => mean [bget b y x1; bget b y1 x1; bget b y1 x]
  | S x1, O => bget b 0 x1
  | O, S y1 => bget b y1 0
  | O, O => 0
  end.

(* range(height) x range(width) in raster order *)
Definition raster (h w : nat) : list (nat * nat) :=
  flat_map (fun y => map (fun x => (y, x)) (seq 0 w)) (seq 0 h).

Definition band_h (b : band) : nat := length b.
Definition band_w (b : band) : nat := match b with [] => O | r :: _ => length r end.

Definition dc_prediction (b : band) : band :=
  fold_left (fun b yx => bset b (fst yx) (snd yx) (bget b (fst yx) (snd yx) + dc_pred b (fst yx) (snd yx)))
            (raster (band_h b) (band_w b)) b.

Definition apply_dc_prediction (b : band) : band :=
  fold_left (fun b yx => bset b (fst yx) (snd yx) (bget b (fst yx) (snd yx) - dc_pred b (fst yx) (snd yx)))
            (rev (raster (band_h b) (band_w b))) b.

(* ------------------------------------------------------------------------ *)
(* A small bit-level model of signed exp-Golomb coding in a bounded block     *)
(* (A.4.4 / A.4.2): past the end of the block every bit reads as 1, and the   *)
(* value 0 is coded as the single bit 1.                                      *)
(* ------------------------------------------------------------------------ *)
(* bits of value+1 below its top bit, most significant first, each preceded by a 0 *)
Fixpoint eg_body (p : positive) : list bool :=
  match p with
  | xH => []
  | xO q => eg_body q ++ [false; false]
  | xI q => eg_body q ++ [false; true]
  end.

Definition write_uint (v : Z) : list bool :=
  match v + 1 with
  | Zpos p => eg_body p ++ [true]
  | _ => [true]
  end.

Definition write_sint (v : Z) : list bool :=
  write_uint (Z.abs v) ++ (if v =? 0 then [] else [v <? 0]).

Definition write_coeffs (cs : list Z) : list bool := flat_map write_sint cs.

(* reading: an exhausted list IS the end of the bounded block: bits read as 1 *)
Definition read_bit (bits : list bool) : bool * list bool :=
  match bits with [] => (true, []) | b :: r => (b, r) end.

(* read_uint loop: value = 1; while read_bit == 0: value <<= 1; value += read_bit *)
Fixpoint read_uint_fuel (fuel : nat) (value : Z) (bits : list bool) : Z * list bool :=
  match fuel with
  | O => (value - 1, bits)
  | S f =>
      let '(b, r) := read_bit bits in
      if b then (value - 1, r)
      else let '(d, r2) := read_bit r in
           read_uint_fuel f (2 * value + (if d then 1 else 0)) r2
  end.

(* the loop ends at the latest when the block is exhausted *)
Definition read_uint (bits : list bool) : Z * list bool :=
  read_uint_fuel (S (length bits)) 1 bits.

Definition read_sint (bits : list bool) : Z * list bool :=
  let '(v, r) := read_uint bits in
  if v =? 0 then (0, r)
  else let '(s, r2) := read_bit r in ((if s then - v else v), r2).

Fixpoint read_coeffs (n : nat) (bits : list bool) : list Z :=
  match n with
  | O => []
  | S k => let '(v, r) := read_sint bits in v :: read_coeffs k r
  end.

(* what the serialiser does with a coefficient list and a block of `len` bits: writes the
   codes; bits that do not fit are dropped if they are 1 (a trailing zero coefficient),
   the rest of the block is padding (0 bits) *)
Definition block_bits (len : nat) (cs : list Z) : list bool :=
  let bits := write_coeffs cs in
  firstn len (bits ++ repeat false (len - length bits)).

(* strip trailing zeros *)
Definition strip_zeros (cs : list Z) : list Z :=
  rev (fold_left (fun acc c => match acc with [] => if c =? 0 then [] else [c] | _ => acc ++ [c] end) (rev cs) [])
.

(* ------------------------------------------------------------------------ *)
(* Gathering coefficients into slices (transform_and_slice_picture) and       *)
(* scattering them back (decoder slice_band).                                 *)
(* A component's transform is the list of its subbands in bitstream order,    *)
(* each with its level; the orientation plays no role in the geometry.        *)
(* ------------------------------------------------------------------------ *)
Definition zrange (a b : Z) : list Z := map (fun i => a + Z.of_nat i) (seq 0 (Z.to_nat (b - a))).

Definition zget (b : band) (y x : Z) : Z := bget b (Z.to_nat y) (Z.to_nat x).
Definition zset (b : band) (y x : Z) (v : Z) : band := bset b (Z.to_nat y) (Z.to_nat x) v.

(* positions (y, x) of the coefficients of slice (sx, sy) within a subband of this level *)
Definition slice_positions (st : pystate) (comp : pystr) (level sx sy : Z) : list (Z * Z) :=
  flat_map (fun y => map (fun x => (y, x))
                         (zrange (slice_left st sx comp level) (slice_right st sx comp level)))
           (zrange (slice_top st sy comp level) (slice_bottom st sy comp level)).

(* (level, quantisation matrix value, coefficient array) *)
Definition subband : Type := (Z * Z * band)%type.
Definition sb_level (s : subband) : Z := fst (fst s).
Definition sb_qm (s : subband) : Z := snd (fst s).
Definition sb_band (s : subband) : band := snd s.

(* the ComponentCoeffs of one slice: values and matrix entries in bitstream order *)
Definition gather_component (st : pystate) (comp : pystr) (bands : list subband) (sx sy : Z) : ccoeffs :=
  (flat_map (fun s => map (fun yx => zget (sb_band s) (fst yx) (snd yx))
                          (slice_positions st comp (sb_level s) sx sy)) bands,
   flat_map (fun s => map (fun _ => sb_qm s) (slice_positions st comp (sb_level s) sx sy)) bands).

Definition gather_slices (st : pystate) (ybands c1bands c2bands : list subband) : list (list scoeffs) :=
  map (fun sy => map (fun sx => (gather_component st Str_Y ybands sx sy,
                                  gather_component st Str_C1 c1bands sx sy,
                                  gather_component st Str_C2 c2bands sx sy))
                     (zrange 0 (st_slices_x st)))
      (zrange 0 (st_slices_y st)).

(* decoder: one slice_band call = consume values in order, store them at the positions *)
Fixpoint scatter_positions (b : band) (ps : list (Z * Z)) (vals : list Z) : band * list Z :=
  match ps with
  | [] => (b, vals)
  | (y, x) :: r =>
      match vals with
      | [] => scatter_positions (zset b y x 0) r []        (* past the end: zeros *)
      | v :: vr => scatter_positions (zset b y x v) r vr
      end
  end.

(* all subbands of one component for one slice *)
Fixpoint scatter_component (st : pystate) (comp : pystr) (bands : list subband) (sx sy : Z) (vals : list Z)
  : list subband :=
  match bands with
  | [] => []
  | s :: r =>
      let '(b', vals') := scatter_positions (sb_band s) (slice_positions st comp (sb_level s) sx sy) vals in
      (sb_level s, sb_qm s, b') :: scatter_component st comp r sx sy vals'
  end.

(* all slices in raster order; `coeffs sx sy` are the values read for that slice *)
Definition scatter_all (st : pystate) (comp : pystr) (bands : list subband) (slices : list (list (list Z)))
  : list subband :=
  fold_left (fun bs syrow =>
     fold_left (fun bs sxvals => scatter_component st comp bs (fst sxvals) (fst syrow) (snd sxvals))
               (enumerate (snd syrow)) bs)
    (enumerate slices) bands.

(* the decoder's color_diff_slice_band reads C1 and C2 values alternately *)
Fixpoint deinterleave (l : list Z) : list Z * list Z :=
  match l with
  | a :: b :: r => let '(x, y) := deinterleave r in (a :: x, b :: y)
  | _ => ([], [])
  end.

(* initialize_wavelet_data (13.2.2): one array of subband_height x subband_width per subband;
   `shape` lists (level, quantisation matrix entry) of the subbands in bitstream order *)
Definition zero_band (h w : nat) : band := repeat (repeat 0 w) h.
Definition init_bands (st : pystate) (comp : pystr) (shape : list (Z * Z)) : list subband :=
  map (fun lq => (fst lq, snd lq,
                  zero_band (Z.to_nat (subband_height st (fst lq) comp)) (Z.to_nat (subband_width st (fst lq) comp))))
      shape.

(* transform_data (13.5.2) for one component: all slices, then DC prediction of the first
   subband when the profile uses it *)
Definition decode_component (st : pystate) (comp : pystr) (shape : list (Z * Z)) (dc : bool)
           (slices : list (list (list Z))) : list band :=
  let bands := map sb_band (scatter_all st comp (init_bands st comp shape) slices) in
  if dc then match bands with b :: r => dc_prediction b :: r | [] => [] end else bands.

(* ------------------------------------------------------------------------ *)
(* One slice through the wire, and one picture's coefficient arrays through   *)
(* the slices (used by the composed C04 theorems)                             *)
(* ------------------------------------------------------------------------ *)
(* decoder slice_band: inverse_quant(val, max(qindex - matrix entry, 0)) *)
Definition dequantize_coeffs (qindex : Z) (vals qms : list Z) : list Z :=
  map (fun p => inverse_quant (fst p) (py_max (qindex - snd p) 0)) (combine vals qms).

(* HQ (13.5.4): each component is a bounded block of 8*scaler*length bits, from which as many
   coefficients are read as the slice has positions (= entries of the matrix-value list) *)
Definition hq_slice_roundtrip (s : Z) (sc : scoeffs) (sl : hq_slice) : list Z * list Z * list Z :=
  let rd len cs qms :=
    dequantize_coeffs (hq_qindex sl) (read_coeffs (length qms) (block_bits (Z.to_nat (8 * s * len)) cs)) qms in
  (rd (hq_y_length sl) (hq_y sl) (snd (sc_Y sc)),
   rd (hq_c1_length sl) (hq_c1 sl) (snd (sc_C1 sc)),
   rd (hq_c2_length sl) (hq_c2 sl) (snd (sc_C2 sc))).

(* LD (13.5.3.1): luma block of slice_y_length bits, colour-difference block of the rest *)
Definition ld_slice_roundtrip (slice_bytes_ : Z) (sc : scoeffs) (sl : ld_slice) : list Z * list Z * list Z :=
  let cq := interleave (snd (sc_C1 sc)) (snd (sc_C2 sc)) in
  let y := dequantize_coeffs (ld_qindex sl)
             (read_coeffs (length (snd (sc_Y sc))) (block_bits (Z.to_nat (ld_y_length sl)) (ld_y sl))) (snd (sc_Y sc)) in
  let c := dequantize_coeffs (ld_qindex sl)
             (read_coeffs (length cq) (block_bits (Z.to_nat (ld_payload_bits slice_bytes_ - ld_y_length sl)) (ld_c sl))) cq in
  (y, fst (deinterleave c), snd (deinterleave c)).

(* the encoder's DC prediction is applied to the first subband (LL / L) only *)
Definition dc_bands (bs : list subband) : list subband :=
  match bs with
  | s :: r => (sb_level s, sb_qm s, apply_dc_prediction (sb_band s)) :: r
  | [] => []
  end.

Definition shape_of (bs : list subband) : list (Z * Z) := map (fun s => (sb_level s, sb_qm s)) bs.

(* the three components of one slice as gathered by transform_and_slice_picture *)
Definition gathered (st : pystate) (yb c1b c2b : list subband) (sx sy : Z) : scoeffs :=
  (gather_component st Str_Y yb sx sy, gather_component st Str_C1 c1b sx sy, gather_component st Str_C2 c2b sx sy).

(* decoder: the arrays of the three components, given the values read for each slice *)
Definition decode_picture (st : pystate) (shy shc1 shc2 : list (Z * Z)) (dc : bool)
           (V : Z -> Z -> list Z * list Z * list Z) : list band * list band * list band :=
  let grid (f : list Z * list Z * list Z -> list Z) :=
    map (fun sy => map (fun sx => f (V sx sy)) (zrange 0 (st_slices_x st))) (zrange 0 (st_slices_y st)) in
  (decode_component st Str_Y shy dc (grid (fun v => fst (fst v))),
   decode_component st Str_C1 shc1 dc (grid (fun v => snd (fst v))),
   decode_component st Str_C2 shc2 dc (grid (fun v => snd v))).
