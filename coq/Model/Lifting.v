(* Model of the 1-D lifting machinery of
     vc2_conformance/pseudocode/picture_decoding.py  (lift1..lift4, oned_synthesis)
     vc2_conformance/pseudocode/picture_encoding.py  (ANALYSIS_LIFTING_FUNCTION_TYPES, oned_analysis)

   A 1-D array is a [list Z].  Every lift function is the SEQUENTIAL in-place
   loop `for n in range(len(A) // 2)` of the Python code: step n reads the
   CURRENT array (clamped tap positions), and overwrites one element.  Nothing
   here assumes that the loop is a parallel map -- that is a theorem
   (Proofs/LiftingProofs.v).

   The stage parameters (lift_type, S, L, D, taps) and the filter table are
   inputs of the model: the theorems quantify over them.

   Faithful where the Python call returns normally, i.e. for S >= 0,
   len(taps) >= L and lift_type in 1..4 (otherwise Python raises ValueError /
   IndexError / KeyError; the model is total and returns something). *)
From Coq Require Import ZArith List Bool.
From VC2 Require Import Base.PyZ.
Import ListNotations.
Open Scope Z_scope.

(* vc2_data_tables.LiftingStage / LiftingFilterParameters *)
Record stage := mk_stage { sg_type : Z; sg_S : Z; sg_L : Z; sg_D : Z; sg_taps : list Z }.
Record filter := mk_filter { f_shift : Z; f_stages : list stage }.

(* A[i] for i >= 0 *)
Definition getz (A : list Z) (i : Z) : Z := nth (Z.to_nat i) A 0.

(* A[i] = v *)
Fixpoint upd (A : list Z) (i : nat) (v : Z) : list Z :=
  match A, i with
  | [], _ => []
  | _ :: r, O => v :: r
  | a :: r, S i' => a :: upd r i' v
  end.

(* lift1/lift2 (update even):  pos = 2*(n+i) - 1 ; pos = min(pos, len-1) ; pos = max(pos, 1)
   lift3/lift4 (update odd) :  pos = 2*(n+i)     ; pos = min(pos, len-2) ; pos = max(pos, 0) *)
Definition tap_pos (odd : bool) (len n i : Z) : Z :=
  if odd then Z.max (Z.min (2 * (n + i)) (len - 2)) 0
  else Z.max (Z.min (2 * (n + i) - 1) (len - 1)) 1.

(* sum = 0 ; for i in range(D, L + D): sum += taps[i - D] * A[pos] *)
Definition tap_sum (odd : bool) (L D : Z) (taps A : list Z) (n : Z) : Z :=
  fold_left
    (fun sum j => sum + nth j taps 0 * getz A (tap_pos odd (Z.of_nat (length A)) n (D + Z.of_nat j)))
    (seq 0 (Z.to_nat L)) 0.

(* one iteration of the `for n` loop, on the current array *)
Definition lift_step (odd sub : bool) (L D : Z) (taps : list Z) (S : Z) (A : list Z) (n : nat) : list Z :=
  let sum := tap_sum odd L D taps A (Z.of_nat n) in
  let sum := if S >? 0 then sum + py_shl 1 (S - 1) else sum in
  let p := if odd then (2 * n + 1)%nat else (2 * n)%nat in
  upd A p (if sub then nth p A 0 - py_shr sum S else nth p A 0 + py_shr sum S).

(* for n in range(len(A) // 2): ... *)
Definition lift_loop (odd sub : bool) (L D : Z) (taps : list Z) (S : Z) (A : list Z) : list Z :=
  fold_left (lift_step odd sub L D taps S) (seq 0 (Nat.div2 (length A))) A.

Definition lift1 := lift_loop false false.  (* update even, add odd *)
Definition lift2 := lift_loop false true.   (* update even, subtract odd *)
Definition lift3 := lift_loop true false.   (* update odd, add even *)
Definition lift4 := lift_loop true true.    (* update odd, subtract even *)

(* SYNTHESIS_LIFTING_FUNCTION_TYPES[t](A, L, D, taps, S) *)
Definition synthesis_lift (t : Z) (L D : Z) (taps : list Z) (S : Z) (A : list Z) : list Z :=
  if t =? 1 then lift1 L D taps S A
  else if t =? 2 then lift2 L D taps S A
  else if t =? 3 then lift3 L D taps S A
  else if t =? 4 then lift4 L D taps S A
  else A.

(* ANALYSIS_LIFTING_FUNCTION_TYPES = {new: SYNTHESIS[old]} with 1<->2, 3<->4 *)
Definition swap_type (t : Z) : Z :=
  if t =? 1 then 2 else if t =? 2 then 1 else if t =? 3 then 4 else if t =? 4 then 3 else t.
Definition analysis_lift (t : Z) := synthesis_lift (swap_type t).

Definition synthesis_stage (A : list Z) (s : stage) : list Z :=
  synthesis_lift (sg_type s) (sg_L s) (sg_D s) (sg_taps s) (sg_S s) A.
Definition analysis_stage (A : list Z) (s : stage) : list Z :=
  analysis_lift (sg_type s) (sg_L s) (sg_D s) (sg_taps s) (sg_S s) A.

(* for stage in filter_params.stages: lift_fn(A, ...) *)
Definition oned_synthesis (stages : list stage) (A : list Z) : list Z :=
  fold_left synthesis_stage stages A.
(* for stage in reversed(filter_params.stages): ... *)
Definition oned_analysis (stages : list stage) (A : list Z) : list Z :=
  fold_left analysis_stage (rev stages) A.
