(* Model of vc2_conformance/codec_features.py :
     read_dict_list_csv, spreadsheet_column_names, parse_int_enum, parse_int_at_least,
     parse_bool, parse_quantization_matrix, read_codec_features_csv (with its inner `pop`).

   Input = the rows produced by csv.reader, every cell ALREADY TOKENISED: a cell carries
   its stripped text together with the results of the text-level primitives the code
   applies to it (the "oracles": int(), str.lower()=="default", the bool word lists,
   str.split()).  The theorems quantify over ALL cells, i.e. over every possible
   behaviour of those primitives (each returns a value or raises ValueError).
   csv.reader itself is an oracle too: it yields rows or raises csv.Error (input None).

   No proofs in this file (it must still evaluate when a proof breaks). *)
From Coq Require Import ZArith List Bool String Ascii.
Import ListNotations.
Open Scope Z_scope.

(* ------------------------------------------------------------------ cells *)

Record cell := mkCell {
  c_text : string;              (* value.strip()  (UTF-8 bytes)                                  *)
  c_default : bool;             (* value.lower() == "default"                                    *)
  c_int : option Z;             (* int(value); None = ValueError                                 *)
  c_bool : option bool;         (* value.lower() in ("1","true",..) / ("0","false",..); None = neither *)
  c_words : list (option Z)     (* [int(w) for w in value.split()], None = ValueError for that word *)
}.

Definition cell_empty (c : cell) : bool :=
  match c_text c with EmptyString => true | _ => false end.

Definition starts_hash (s : string) : bool :=
  match s with String c _ => Ascii.eqb c "#"%char | EmptyString => false end.

(* ------------------------------------------------- dictionaries (one per column) *)

Definition column := list (string * cell).

Fixpoint dict_set (k : string) (v : cell) (d : column) : column :=
  match d with
  | [] => [(k, v)]
  | (k', v') :: r => if String.eqb k k' then (k, v) :: r else (k', v') :: dict_set k v r
  end.

Fixpoint dict_pop (k : string) (d : column) : option (cell * column) :=
  match d with
  | [] => None
  | (k', v) :: r =>
      if String.eqb k k' then Some (v, r)
      else match dict_pop k r with
           | Some (c, r') => Some (c, (k', v) :: r')
           | None => None
           end
  end.

Definition dict_has (k : string) (d : column) : bool :=
  existsb (fun kv => String.eqb k (fst kv)) d.

(* ------------------------------------------------------ read_dict_list_csv *)

(* for i, value in enumerate(row[1:]): if i >= len(out): out.append({}) ;
   value = value.strip() ; if value: out[i][key] = value *)
Fixpoint add_values (key : string) (vals : list cell) (out : list column) : list column :=
  match vals with
  | [] => out
  | v :: vs =>
      match out with
      | [] => (if cell_empty v then [] else [(key, v)]) :: add_values key vs []
      | c :: cs => (if cell_empty v then c else dict_set key v c) :: add_values key vs cs
      end
  end.

Definition add_row (out : list column) (row : list cell) : list column :=
  match row with
  | [] => out                                             (* len(row) == 0 *)
  | k :: vals =>
      if cell_empty k || starts_hash (c_text k) then out    (* empty key or comment row *)
      else add_values (c_text k) vals out
  end.

Definition read_dict_list (rows : list (list cell)) : list column :=
  fold_left add_row rows [].

(* ------------------------------------------------ spreadsheet_column_names *)

(* A, B, ..., Z, AA, AB, ... : bijective base 26 of n >= 1 *)
Fixpoint bij26 (fuel : nat) (n : Z) (acc : string) : string :=
  match fuel with
  | O => acc
  | S f =>
      if n <=? 0 then acc
      else bij26 f ((n - 1) / 26) (String (ascii_of_N (Z.to_N (65 + (n - 1) mod 26))) acc)
  end.

(* i-th name, 0-based (col_name 0 = "A"); the reader starts at index 1 ("B") *)
Definition col_name (i : Z) : string :=
  bij26 (S (Z.to_nat (Z.log2 (i + 1)))) (i + 1) EmptyString.

(* ---------------------------------------------------------- enum tables *)

Inductive enum_id :=
| ELevels | EProfiles | EPictureCodingModes | EWaveletFilters
| EColorDifferenceSamplingFormats | EBaseVideoFormats | ESourceSamplingModes
| EPresetColorPrimaries | EPresetColorMatrices | EPresetTransferFunctions.

Inductive value := VZ (z : Z) | VB (b : bool).

(* everything the reader imports from vc2_data_tables: the enum members (name, value) in
   iteration order and set_source_defaults(b) for each base video format b, as the list of
   the 20 values in the order of vp_fields below.  Theorems hold for ARBITRARY tables. *)
Record tables := mkTables {
  enum_tab : enum_id -> list (string * Z);
  defaults_tab : list (Z * list value)
}.

(* ------------------------------------------------------------- parse_* *)

Definition enum_lookup_name (tab : list (string * Z)) (s : string) : option Z :=
  match find (fun e => String.eqb (fst e) s) tab with
  | Some e => Some (snd e)
  | None => None
  end.

Definition enum_has_value (tab : list (string * Z)) (n : Z) : bool :=
  existsb (fun e => Z.eqb (snd e) n) tab.

(* try: number = int(value) except ValueError: look the name up (else ValueError);
   return int_enum_type(number)  (ValueError when not a member) *)
Definition parse_int_enum (tab : list (string * Z)) (c : cell) : option Z :=
  match c_int c with
  | Some n => if enum_has_value tab n then Some n else None
  | None => enum_lookup_name tab (c_text c)
  end.

Definition parse_int_at_least (minimum : Z) (c : cell) : option Z :=
  match c_int c with
  | Some n => if n <? minimum then None else Some n
  | None => None
  end.

Definition parse_bool (c : cell) : option bool := c_bool c.

(* parse_quantization_matrix *)
Inductive orient := oL | oLL | oH | oHL | oLH | oHH.
Definition matrix := list (Z * list (orient * Z)).

(* for level in range(level, level + n): out[level] = {"H": int(next(values))} *)
Fixpoint qm_h_levels (ws : list (option Z)) (n level : Z) {struct ws}
  : option (matrix * list (option Z)) :=
  if n <=? 0 then Some ([], ws)
  else match ws with
       | Some a :: ws' =>
           match qm_h_levels ws' (n - 1) (level + 1) with
           | Some (m, r) => Some ((level, [(oH, a)]) :: m, r)
           | None => None
           end
       | _ => None                       (* StopIteration -> ValueError, or int() ValueError *)
       end.

(* for level in range(level, level + n): out[level] = {"HL": .., "LH": .., "HH": ..} *)
Fixpoint qm_hl_levels (ws : list (option Z)) (n level : Z) {struct ws}
  : option (matrix * list (option Z)) :=
  if n <=? 0 then Some ([], ws)
  else match ws with
       | Some a :: Some b :: Some c :: ws' =>
           match qm_hl_levels ws' (n - 1) (level + 1) with
           | Some (m, r) => Some ((level, [(oHL, a); (oLH, b); (oHH, c)]) :: m, r)
           | None => None
           end
       | _ => None
       end.

Definition parse_quantization_matrix (dwt_depth dwt_depth_ho : Z) (c : cell) : option matrix :=
  match c_words c with
  | Some a :: ws1 =>
      let first :=
        if dwt_depth_ho =? 0 then Some ([(0, [(oLL, a)])], ws1)
        else match qm_h_levels ws1 dwt_depth_ho 1 with
             | Some (m, r) => Some ((0, [(oL, a)]) :: m, r)
             | None => None
             end in
      match first with
      | Some (m1, ws2) =>
          match qm_hl_levels ws2 dwt_depth (dwt_depth_ho + 1) with
          | Some (m2, []) => Some (m1 ++ m2)
          | Some (_, _ :: _) => None     (* a further value: ValueError *)
          | None => None
          end
      | None => None
      end
  | _ => None
  end.

(* ------------------------------------------------------------- results *)

Inductive err_kind :=
| EMissing                 (* "Missing entry for '{field}' in '{name}' column"        *)
| EInvalid                 (* "Invalid entry for '{field}' in '{name}' column: ..."   *)
| EDupName                 (* "Name '{name}' used more than once"                     *)
| ELosslessPictureBytes    (* "Entry provided for 'picture_bytes' when lossless ..."  *)
| EUnrecognised            (* "Unrecognised row(s): ..."                              *)
| ECsvMalformed.           (* csv.Error from the reader (REPAIRED behaviour, fixes/C28-csv-error-not-wrapped.diff) *)

(* Ok | InvalidCodecFeaturesError | any other exception class *)
Inductive result (A : Type) :=
| Ok (a : A)
| Invalid (k : err_kind) (field col : string)
| Crash (what : string).
Arguments Ok {A} a.
Arguments Invalid {A} k field col.
Arguments Crash {A} what.

Definition bind {A B} (r : result A) (f : A -> result B) : result B :=
  match r with
  | Ok a => f a
  | Invalid k fl c => Invalid k fl c
  | Crash w => Crash w
  end.

Notation "' p <- e ;; k" := (bind e (fun x => match x with p => k end))
  (at level 61, p pattern, e at next level, right associativity).

(* the inner function `pop` of read_codec_features_csv; dflt = the optional third argument *)
Definition pop {A} (name field : string) (parser : cell -> option A) (dflt : option A)
           (col : column) : result (A * column) :=
  match dict_pop field col with
  | None => Invalid EMissing field name                      (* KeyError *)
  | Some (c, col') =>
      let parsed := match parser c with
                    | Some v => Ok (v, col')
                    | None => Invalid EInvalid field name     (* ValueError *)
                    end in
      match dflt with
      | Some d => if c_default c then Ok (d, col') else parsed
      | None => parsed
      end
  end.

(* ------------------------------------------------------- configurations *)

Record config := mkConfig {
  cf_name : string;
  cf_level : Z;
  cf_profile : Z;
  cf_picture_coding_mode : Z;
  cf_wavelet_index : Z;
  cf_wavelet_index_ho : Z;
  cf_dwt_depth : Z;
  cf_dwt_depth_ho : Z;
  cf_slices_x : Z;
  cf_slices_y : Z;
  cf_fragment_slice_count : Z;
  cf_lossless : bool;
  cf_video_parameters : list value;     (* the entries of vp_fields, in that order *)
  cf_picture_bytes : option Z;
  cf_quantization_matrix : option matrix
}.

Inductive vparser := PEnum (e : enum_id) | PAtLeast (minimum : Z) | PBool.

Definition run_vparser (T : tables) (p : vparser) (c : cell) : option value :=
  match p with
  | PEnum e => option_map VZ (parse_int_enum (enum_tab T e) c)
  | PAtLeast m => option_map VZ (parse_int_at_least m c)
  | PBool => option_map VB (parse_bool c)
  end.

Open Scope string_scope.

(* the second field list of read_codec_features_csv *)
Definition vp_fields : list (string * vparser) := [
  ("frame_width", PAtLeast 1);
  ("frame_height", PAtLeast 1);
  ("color_diff_format_index", PEnum EColorDifferenceSamplingFormats);
  ("source_sampling", PEnum ESourceSamplingModes);
  ("top_field_first", PBool);
  ("frame_rate_numer", PAtLeast 1);
  ("frame_rate_denom", PAtLeast 1);
  ("pixel_aspect_ratio_numer", PAtLeast 1);
  ("pixel_aspect_ratio_denom", PAtLeast 1);
  ("clean_width", PAtLeast 0);
  ("clean_height", PAtLeast 0);
  ("left_offset", PAtLeast 0);
  ("top_offset", PAtLeast 0);
  ("luma_offset", PAtLeast 0);
  ("luma_excursion", PAtLeast 1);
  ("color_diff_offset", PAtLeast 0);
  ("color_diff_excursion", PAtLeast 1);
  ("color_primaries_index", PEnum EPresetColorPrimaries);
  ("color_matrix_index", PEnum EPresetColorMatrices);
  ("transfer_function_index", PEnum EPresetTransferFunctions)
].

(* features["video_parameters"][f] = pop(f, parser, features["video_parameters"][f]) for each f;
   a default that is absent is a KeyError raised OUTSIDE pop's try block *)
Fixpoint parse_vp (T : tables) (name : string) (fields : list (string * vparser))
         (defaults : list value) (col : column) : result (list value * column) :=
  match fields with
  | [] => Ok ([], col)
  | (f, p) :: fs =>
      match defaults with
      | [] => Crash "KeyError: video_parameters default missing"
      | d :: ds =>
          '(v, col1) <- pop name f (run_vparser T p) (Some d) col ;;
          '(vs, col2) <- parse_vp T name fs ds col1 ;;
          Ok (v :: vs, col2)
      end
  end.

(* set_source_defaults(base_video_format): BASE_VIDEO_FORMAT_PARAMETERS[...] lookup *)
Definition lookup_defaults (T : tables) (bvf : Z) : option (list value) :=
  match find (fun r => Z.eqb (fst r) bvf) (defaults_tab T) with
  | Some r => Some (snd r)
  | None => None
  end.

(* body of the per-column loop after the name has been determined *)
Definition parse_column (T : tables) (name : string) (col : column) : result config :=
  let E := enum_tab T in
  '(level, col) <- pop name "level" (parse_int_enum (E ELevels)) None col ;;
  '(profile, col) <- pop name "profile" (parse_int_enum (E EProfiles)) None col ;;
  '(pcm, col) <- pop name "picture_coding_mode" (parse_int_enum (E EPictureCodingModes)) None col ;;
  '(wavelet_index, col) <- pop name "wavelet_index" (parse_int_enum (E EWaveletFilters)) None col ;;
  '(wavelet_index_ho, col) <- pop name "wavelet_index_ho" (parse_int_enum (E EWaveletFilters)) None col ;;
  '(dwt_depth, col) <- pop name "dwt_depth" (parse_int_at_least 0) None col ;;
  '(dwt_depth_ho, col) <- pop name "dwt_depth_ho" (parse_int_at_least 0) None col ;;
  '(slices_x, col) <- pop name "slices_x" (parse_int_at_least 1) None col ;;
  '(slices_y, col) <- pop name "slices_y" (parse_int_at_least 1) None col ;;
  '(fragment_slice_count, col) <- pop name "fragment_slice_count" (parse_int_at_least 0) None col ;;
  '(lossless, col) <- pop name "lossless" parse_bool None col ;;
  '(bvf, col) <- pop name "base_video_format" (parse_int_enum (E EBaseVideoFormats)) None col ;;
  match lookup_defaults T bvf with
  | None => Crash "KeyError: BASE_VIDEO_FORMAT_PARAMETERS"
  | Some defaults =>
      '(vp, col) <- parse_vp T name vp_fields defaults col ;;
      '(picture_bytes, col) <-
          (if lossless then
             if dict_has "picture_bytes" col
             then Invalid ELosslessPictureBytes "picture_bytes" name
             else Ok (None, col)
           else
             '(pb, col) <- pop name "picture_bytes" (parse_int_at_least 1) None col ;;
             Ok (Some pb, col)) ;;
      '(qm, col) <- pop name "quantization_matrix"
                        (fun c => option_map Some (parse_quantization_matrix dwt_depth dwt_depth_ho c))
                        (Some None) col ;;
      match col with
      | _ :: _ => Invalid EUnrecognised "" name
      | [] =>
          Ok (mkConfig name level profile pcm wavelet_index wavelet_index_ho dwt_depth dwt_depth_ho
                       slices_x slices_y fragment_slice_count lossless vp picture_bytes qm)
      end
  end.

(* if "name" not in column: name = "column_{}".format(i) else: name = column.pop("name") *)
Definition column_name (idx : Z) (col : column) : string * column :=
  match dict_pop "name" col with
  | Some (c, col') => (c_text c, col')
  | None => ("column_" ++ col_name idx, col)
  end.

(* for i, column in zip(islice(spreadsheet_column_names(), 1, None), csv_columns) *)
Fixpoint read_columns (T : tables) (idx : Z) (cols : list column) (out : list config)
  : result (list config) :=
  match cols with
  | [] => Ok out
  | col :: rest =>
      match col with
      | [] => read_columns T (idx + 1) rest out                (* if not column: continue *)
      | _ :: _ =>
          let '(name, col1) := column_name idx col in
          if existsb (fun c => String.eqb (cf_name c) name) out
          then Invalid EDupName name name
          else
            'cfg <- parse_column T name col1 ;;
            read_columns T (idx + 1) rest (out ++ [cfg])
      end
  end.

(* input None = csv.reader raised csv.Error *)
Definition read_model (T : tables) (inp : option (list (list cell))) : result (list config) :=
  match inp with
  | None => Invalid ECsvMalformed "" ""
  | Some rows => read_columns T 1 (read_dict_list rows) []
  end.

Close Scope string_scope.

(* ------------------------------------------------ specification vocabulary *)

Definition in_enum (T : tables) (e : enum_id) (n : Z) : Prop := In n (map snd (enum_tab T e)).

Definition value_in_spec (T : tables) (p : vparser) (v : value) : Prop :=
  match p, v with
  | PEnum e, VZ n => in_enum T e n
  | PAtLeast m, VZ n => m <= n
  | PBool, VB _ => True
  | _, _ => False
  end.

Definition value_in_specb (T : tables) (p : vparser) (v : value) : bool :=
  match p, v with
  | PEnum e, VZ n => enum_has_value (enum_tab T e) n
  | PAtLeast m, VZ n => m <=? n
  | PBool, VB _ => true
  | _, _ => false
  end.

Fixpoint all2b {A B} (f : A -> B -> bool) (l : list A) (l' : list B) : bool :=
  match l, l' with
  | [], [] => true
  | a :: r, b :: r' => f a b && all2b f r r'
  | _, _ => false
  end.

(* hypotheses on the data tables, checked on the live tables on every run *)
Definition defaults_completeb (T : tables) : bool :=
  forallb (fun e => match lookup_defaults T (snd e) with
                    | Some ds => (List.length vp_fields <=? List.length ds)%nat
                    | None => false
                    end) (enum_tab T EBaseVideoFormats).

Definition defaults_in_domainb (T : tables) : bool :=
  forallb (fun r => all2b (value_in_specb T) (map snd vp_fields) (snd r)) (defaults_tab T).

Definition zrange (start count : Z) : list Z :=
  map (fun i => start + Z.of_nat i) (seq 0 (Z.to_nat count)).

(* the levels and orientations quant_matrix (12.4.5.3) defines for these depths *)
Definition expected_shape (dwt_depth dwt_depth_ho : Z) : list (Z * list orient) :=
  (0, [if dwt_depth_ho =? 0 then oLL else oL])
  :: map (fun l => (l, [oH])) (zrange 1 dwt_depth_ho)
  ++ map (fun l => (l, [oHL; oLH; oHH])) (zrange (dwt_depth_ho + 1) dwt_depth).

Definition matrix_keys (m : matrix) : list (Z * list orient) :=
  map (fun le => (fst le, map fst (snd le))) m.

Definition matrix_shape (dwt_depth dwt_depth_ho : Z) (m : matrix) : Prop :=
  matrix_keys m = expected_shape dwt_depth dwt_depth_ho.

Definition in_domain (T : tables) (c : config) : Prop :=
  in_enum T ELevels (cf_level c) /\
  in_enum T EProfiles (cf_profile c) /\
  in_enum T EPictureCodingModes (cf_picture_coding_mode c) /\
  in_enum T EWaveletFilters (cf_wavelet_index c) /\
  in_enum T EWaveletFilters (cf_wavelet_index_ho c) /\
  0 <= cf_dwt_depth c /\
  0 <= cf_dwt_depth_ho c /\
  1 <= cf_slices_x c /\
  1 <= cf_slices_y c /\
  0 <= cf_fragment_slice_count c /\
  Forall2 (value_in_spec T) (map snd vp_fields) (cf_video_parameters c) /\
  (cf_picture_bytes c = None <-> cf_lossless c = true) /\
  (forall n, cf_picture_bytes c = Some n -> 1 <= n) /\
  (forall m, cf_quantization_matrix c = Some m ->
             matrix_shape (cf_dwt_depth c) (cf_dwt_depth_ho c) m).

Definition is_ok_or_invalid {A} (r : result A) : Prop :=
  match r with Ok _ => True | Invalid _ _ _ => True | Crash _ => False end.
