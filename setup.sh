#!/bin/sh
# MANIFEST.setup_cmd: build the whole Coq development from files on disk (offline).
set -e
HERE="$(cd "$(dirname "$0")" && pwd)"
cd "$HERE"
export PYTHONPATH="${VERIF_REPO:-/repo}:$HERE/tools" PYTHONHASHSEED=0 PYTHONDONTWRITEBYTECODE=1
mkdir -p build evidence replays
/venv/bin/python tools/gen_all.py >/dev/null
sh coq/mkproject.sh
cd coq
# lint (comment-aware): no Admitted/admit/Axiom/Parameter/... anywhere in the development
/venv/bin/python - <<'PY'
import sys, os, glob
sys.path.insert(0, os.path.join(os.getcwd(), "..", "tools"))
import vlib
files = [os.path.relpath(f, vlib.COQ) for d in ("Base", "Gen", "Model", "Proofs", "Props", "Corr")
         for f in glob.glob(os.path.join(vlib.COQ, d, "*.v"))]
bad = vlib.lint(files)
if bad:
    print("lint: forbidden construct found:\n" + "\n".join(bad)); sys.exit(1)
print("lint ok (%d files)" % len(files))
PY
timeout 3000 make -j16 -k 2>&1 | tail -15
# optional extracted runners
if [ -x "$HERE/tools/build_extracted.sh" ]; then "$HERE/tools/build_extracted.sh" || true; fi
