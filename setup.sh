#!/bin/sh
# MANIFEST.setup_cmd: build the whole Coq development from files on disk (offline).
set -e
HERE="$(cd "$(dirname "$0")" && pwd)"
cd "$HERE"
export PYTHONPATH="${VERIF_REPO:-/repo}:$HERE/tools" PYTHONHASHSEED=0 PYTHONDONTWRITEBYTECODE=1
mkdir -p build evidence replays
/venv/bin/python tools/gen_all.py >/dev/null
sh coq/mkproject.sh
cd coq
# lint: no Admitted/admit/Axiom/Parameter/... anywhere in the development
if grep -rnE '\b(Admitted|admit|Axiom|Parameter|Conjecture|Unset Guard|bypass_check)\b' --include='*.v' Base Gen Model Proofs Props Corr | grep -v '^[^:]*:[0-9]*:[[:space:]]*(\*' ; then
  echo "lint: forbidden construct found" >&2; exit 1
fi
timeout 3000 make -j16 -k 2>&1 | tail -15
# optional extracted runners
if [ -x "$HERE/tools/build_extracted.sh" ]; then "$HERE/tools/build_extracted.sh" || true; fi
